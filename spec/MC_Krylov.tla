------------------------------ MODULE MC_Krylov ------------------------------
(***************************************************************************)
(* Design model of the factorization object: every sequence of public calls *)
(* up to MaxLen on an object of kind Kind with m = M.  Probe calls (rejected *)
(* init, empty and rejected factorize_from) change nothing, so at most      *)
(* MaxProbes of them are placed in a behaviour.  The reachable states carry *)
(* the call history; tools/krygen.py exports them (TLC -dump) as call       *)
(* sequences for harness/drv_krylov.cpp.                                    *)
(***************************************************************************)
EXTENDS Krylov, TLC
CONSTANTS Kind, M, MaxLen, MaxProbes
VARIABLE st
Probes(s) == Cardinality({i \in 1 .. Len(s.hist) : s.hist[i][1] \in {"Z", "N", "T"}})
Budget == Len(st.hist) < MaxLen
CanProbe == Budget /\ Probes(st) < MaxProbes

Init == st = Fresh(Kind, M)
Next ==
    \/ Budget /\ G_Init(st) /\ st' = U_Init(st)
    \/ CanProbe /\ st' = U_InitZero(st)
    \/ \E to \in 1 .. M : Budget /\ G_Extend(st, to) /\ st' = U_Extend(st, to)
    \/ \E from, to \in 1 .. M : CanProbe /\ G_Noop(st, from, to) /\ from = to /\ st' = U_Noop(st, from, to)
    \/ \E from, to \in 1 .. M : CanProbe /\ G_Throw(st, from, to) /\ to = M /\ st' = U_Throw(st, from, to)
    \/ \E w \in {1, 2} : Budget /\ G_Shift(st, w) /\ st' = U_Shift(st, w)
    \/ Budget /\ G_CompressV(st) /\ st' = U_CompressV(st)
Spec == Init /\ [][Next]_st

Inv_Type      == TypeOK(st)
Inv_Dim       == P_DimInRange(st)
Inv_New       == P_NewIsEmpty(st)
Inv_Shift     == P_ShiftAccount(st)
Inv_Fact      == P_FactClean(st)
Inv_HandOver  == P_HandOver(st)
Inv_Ops       == P_OpsLower(st)
\* from every state a full factorization can be reached again within m + 1 calls: nothing wedges the object
\* (checked as: every state has a successor unless the call budget is used up)
Inv_NoWedge   == Budget => ENABLED Next
\* every step of Krylov.tla is a step of its history-free transcription KrylovApa, whose invariants Apalache proves inductive
\* for every m and any number of calls
Apa == INSTANCE KrylovApa WITH ph <- st.ph, kind <- st.kind, m <- st.m, dim <- st.dim, pend <- st.pend, cyc <- st.cyc, ops <- st.ops
StepsAreApaSteps == [][Apa!Next]_st
InitIsApaInit == Apa!Init
\* negative control: "a compress cycle always ends at dim >= 2" is false (cycles down to one column are legal)
Neg_DimAtLeast2 == st.ph = "fact" /\ st.cyc > 0 => st.dim >= 2
=============================================================================
