------------------------------ MODULE LOBPCGOps ------------------------------
(***************************************************************************)
(* Shape algebra of contrib/LOBPCGSolver.h as operators without variables,  *)
(* shared by the design model LOBPCG.tla and by TraceAux, which replays the *)
(* LobIter hook events of real runs through them.                           *)
(***************************************************************************)
EXTENDS Naturals, Integers, FiniteSets
\* a matrix is a pair <<rows, cols>>; <<0,0>> marks a non-conformable product
Mul(A, B) == IF A[2] = B[1] THEN <<A[1], B[2]>> ELSE <<0, 0>>
\* order of the Rayleigh-Ritz problem on [X R] (first iteration) or [X R D]: k + b resp. k + 2 b, b = active block size
L_Order(k, iter, nb) == IF iter = 0 THEN k + nb ELSE k + 2 * nb
\* its coefficient matrix (eigenvectors of the small problem): order x k
L_Coef(k, iter, nb) == <<L_Order(k, iter, nb), k>>
\* the active block (columns whose residual is still above the tolerance) is recomputed from all k columns in every iteration: it
\* is not empty while the iteration goes on and never larger than k, but it may grow again (a column that had converged can leave
\* the tolerance when the others move)
L_BlockOK(k, nb) == nb >= 1 /\ nb <= k
=============================================================================
