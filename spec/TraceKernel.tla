----------------------------- MODULE TraceKernel -----------------------------
(***************************************************************************)
(* Validation of the dense-kernel tables produced by harness/drv_bkldlt.cpp *)
(* (C10), drv_kernels.cpp (C08, C09) and drv_matop.cpp (C11).  Every row is *)
(* one case executed on the real classes; the specification judges it.      *)
(***************************************************************************)
EXTENDS Naturals, Integers, Sequences, FiniteSets, TLC, Json, IOUtils, BKLDLT, QRKernels, MatOp

VARIABLES l, mon, cov, seen
Tr == ndJsonDeserialize(IOEnv.TRACE)
OutFile == IOEnv.OUT
CovKeys == {"rows", "bk_exact", "bk_exact_nonsingular", "bk_exact_singular", "bk_singular_reported", "bk_meas", "bk_meas_judged", "bk_meas_illcond",
            "bk_proto", "bk_n1", "bk_complex", "qr_rows", "qr_exact", "eig_rows", "eig_exact", "matop_rows", "matop_configs"}
Bump(c, key, by) == [c EXCEPT ![key] = @ + by]
\* run = ordinal of the Reset line (descriptor) this row belongs to; computed only when a hit is recorded
RunOf(k) == Cardinality({i \in 1 .. k : Tr[i].e = "Reset"})
Hit(rule) == [r |-> rule, run |-> RunOf(l), l |-> l]
If(c, rule) == IF c THEN {} ELSE {Hit(rule)}
AddHits(m, new) == IF Cardinality(m) > 300 THEN m ELSE m \cup new

AllEq(seq) == \A i \in 1 .. Len(seq) : seq[i] = seq[1]

\* ---------------------------------------------------------------- C10
BkDet(e) == LET n == OrderOf(Len(e.ent)) IN Det(Mat(n, e.ent, e.sig), n)
\* elimination on matrices over {-1,0,1} shifted by 0/1 stays in the dyadic rationals only if no entry 2 or -2 is a pivot of
\* a 2x2 block with determinant 3...: we only REQUIRE the NumericalIssue report for singular matrices over {-1,0,1} with sig = 0
TernaryEntries(e) == \A i \in 1 .. Len(e.ent) : e.ent[i] \in {-1, 0, 1}
BkHits(e) ==
    LET variants == If(AllEq(e.info), "VariantsSameStatus")
                    \cup (IF AllEq(e.info) /\ e.info[1] = SUCCESS THEN If(AllEq(e.dg), "VariantsBitIdentical") \cup If(AllEq(e.fin) /\ e.fin[1] = 1, "SolutionFinite") ELSE {})
        status == If(\A i \in 1 .. Len(e.info) : e.info[i] \in {SUCCESS, NUMISSUE}, "StatusSuccessOrNumericalIssue")
    IN
    IF e.kind = "exact"
    THEN LET det == BkDet(e) IN
         variants \cup status
         \cup (IF det # 0
               THEN If(e.info[1] = SUCCESS, "NonsingularReportsSuccess")
                    \cup (IF e.info[1] = SUCCESS THEN If(ResidualOK(e.ty, e.qn, e.qres, e.qscale + 64), "ResidualSmall") ELSE {})
               ELSE (IF TernaryEntries(e) /\ e.sig = 0 THEN If(e.info[1] = NUMISSUE, "SingularReportsNumericalIssue") ELSE {}))
    ELSE \* measured families: judged when the shifted matrix is numerically nonsingular (condition number below 1/sqrt(eps))
         \* graded pivot traps (family "trap"): nonsingular by construction (determinant -M or -1 per block) and ill-conditioned on purpose;
         \* Bunch-Kaufman is backward stable whatever the condition number, so the residual is judged for them as well
         LET wellcond == e.fam = "trap" \/ (e.qcond # QNAN /\ e.qcond <= -QEPS12(e.ty)) IN
         variants \cup status
         \cup (IF wellcond
               THEN If(e.info[1] = SUCCESS, "NonsingularReportsSuccess")
                    \cup (IF e.info[1] = SUCCESS THEN If(ResidualOK(e.ty, e.qn, e.qres, e.qscale), "ResidualSmall") ELSE {})
               ELSE {})

ProtoHits(e) ==
    CASE e.what = "solve_before_compute" -> If(e.out = 1, "SolveBeforeComputeIsLogicError")
      [] e.what = "nonsquare" -> If(e.out = 1, "NonSquareRejected")
      [] e.what \in {"DenseSymShiftSolve", "SymShiftInvert"} -> If(e.out = (IF e.singular = 1 THEN 1 ELSE 0), "WrapperThrowsIffNotSuccessful")
      [] e.what = "recompute" -> If(e.out = 0 /\ e.info = SUCCESS, "RecomputeIndependentOfHistory")
      [] OTHER -> {Hit("UnknownRow")}

\* ---------------------------------------------------------------- C08
QrHits(e) ==
    LET rb == RelBound(e.ty, e.qn) ab == AbsBound(e.ty, e.qn, e.qscale) IN
    If(ProtoOK(e.pre), "ResultBeforeComputeIsLogicError")
    \cup If(e.fin = 1, "QrFinite")
    \cup If(QLe(e.qQQ, rb), "QOrthogonal")
    \cup If(QLe(e.qQR, ab), "QRequalsShiftedH")
    \cup If(QLe(e.qSim, ab), "QtHQisSimilarity")
    \cup If(QLe(e.qApply, rb), "ApplyMultipliesByQ")
    \cup If(e.rtri = 1, "RUpperTriangular")
    \cup (IF e.cls = "ds"
          THEN If(QLe(e.qLow, ab), "QtHQHessenberg")
               \* first column of Q parallel to (H^2 - sH + tI) e1: deviation of the normalised column times its relative size
               \cup If(e.qFirst = QZERO \/ QLe(e.qFirst + QMin(e.qM1, 0), rb), "FirstColumnParallel")
          ELSE If(e.hess = 1, "QtHQHessenberg") \cup If(e.tri = 1, "QtHQTridiagonalSymmetric"))
    \cup (IF ExactDomain(e.cls, e.kind, e.sk) THEN If(ExactOK(e), "ExactOnTrivialRotations") ELSE {})

\* ---------------------------------------------------------------- C09
EigHits(e) ==
    IF e.thr # 0
    THEN \* a failure is reported by runtime_error, never by wrong numbers; none of the generated families may fail
         If(e.thr = 1, "FailureIsRuntimeError") \cup {Hit("DecompositionFailed")}
    ELSE LET rb == RelBound(e.ty, e.qn) ab == AbsBound(e.ty, e.qn, e.qscale) IN
         If(e.fin = 1, "EigFinite") \cup If(QLe(e.qRes, ab), "BackwardStable") \cup If(QLe(e.qOrth, rb), "OrthogonalOrUnitNorm")
         \cup (IF e.cls = "schur" THEN If(e.quasi = 1, "QuasiTriangular") \cup If(e.std2 = 1, "BlocksStandardised") ELSE {})
         \cup (IF e.cls = "hesseig" THEN If(e.conv = 1, "ExactConjugatePairing") ELSE {})

\* ---------------------------------------------------------------- C11
SixLetters(c) == <<SubSeq(c, 1, 1), SubSeq(c, 2, 2), SubSeq(c, 3, 3), SubSeq(c, 4, 4), SubSeq(c, 5, 5), SubSeq(c, 6, 6)>>
ProdHits(e) ==
    LET want == MatVec(e.n, e.a, e.x) IN
    If(e.nonint = 0 /\ \A i \in 1 .. e.n : e.y[i] = want[i], "ProductExact") \cup If(e.rows = e.n /\ e.cols = e.n, "RowsCols")
HProdHits(e) ==
    LET re == MatVec(e.n, e.a, e.x) im == MatVec(e.n, e.k, e.x) IN
    If(e.nonint = 0 /\ \A i \in 1 .. e.n : e.yr[i] = re[i] /\ e.yi[i] = im[i], "ProductExact")
SolveHits(e) ==
    If(e.fin = 1, "SolveFinite") \cup If(SolveOK(e.ty, e.qn, e.qres, e.qscale, e.qcond), "SolveAccurate")
    \cup If(e.dg0 = e.dg1, "ReadsOnlyItsTriangle")
Key(e) ==
    CASE e.e = "Prod" -> <<"P", <<e.w, e.uplo, e.rm, e.si, e.ty>>>>
      [] e.e = "HProd" -> <<"H", <<e.w, e.uplo, e.rm>>>>
      [] e.e = "Solve" /\ e.w = "SymShiftInvert" -> <<"I", e.cx>>
      [] e.e = "Solve" /\ e.op = "composite" -> <<"C", e.w>>
      [] OTHER -> <<"S", <<e.w, e.uplo, e.rm, e.si, e.ty>>>>
\* completeness of the finite configuration space: evaluated when the table ends
\* the driver is built in three parts (products / solves / two-matrix shift-invert + composites), each with its own table
ExpectedOf(part) ==
    (IF part \in {"all", "prod"} THEN ({<<"P", c>> : c \in ProdConfigs} \ {<<"P", c>> : c \in {x \in ProdConfigs : x[1] = "SparseRegularInverse"}}) \cup {<<"H", c>> : c \in HermConfigs} ELSE {})
    \cup (IF part \in {"all", "solve"} THEN {<<"S", c>> : c \in SolveConfigs} \cup {<<"P", c>> : c \in {x \in ProdConfigs : x[1] = "SparseRegularInverse"}} ELSE {})
    \cup (IF part \in {"all", "ssi"} THEN {<<"C", c>> : c \in Composites} ELSE {})
SSISeen == {k[2] : k \in {x \in seen : x[1] = "I"}}
EndMatOpHits(e) ==
    If(ExpectedOf(e.part) \subseteq seen, "ConfigSpaceComplete")
    \cup (IF e.part \in {"all", "ssi"} THEN If(Cardinality(SSISeen) = 64, "ShiftInvert64Combinations") ELSE {})

TrInit == l = 1 /\ mon = {} /\ cov = [key \in CovKeys |-> 0] /\ seen = {}
TrStep ==
    /\ l <= Len(Tr)
    /\ LET e == Tr[l] IN
        /\ mon' = AddHits(mon, CASE e.e = "Bk" -> BkHits(e)
                                 [] e.e = "BkProto" -> ProtoHits(e)
                                 [] e.e = "Prod" -> ProdHits(e)
                                 [] e.e = "HProd" -> HProdHits(e)
                                 [] e.e = "Solve" -> SolveHits(e)
                                 [] e.e = "EndMatOp" -> EndMatOpHits(e)
                                 [] e.e = "Qr" -> QrHits(e)
                                 [] e.e = "Eig" -> EigHits(e)
                                 [] e.e \in {"Reset", "EndBk", "EndKernels"} -> {}
                                 [] e.e = "OutOfRange" -> {Hit("OutOfRange")}
                                 [] e.e = "Abort" -> {Hit("Abort")}
                                 [] OTHER -> {Hit("UnknownRow")})
        /\ cov' = LET c0 == Bump(cov, "rows", 1) IN
                  CASE e.e = "Bk" /\ e.kind = "exact" ->
                         LET det == BkDet(e) IN
                         Bump(Bump(Bump(Bump(c0, "bk_exact", 1), IF det # 0 THEN "bk_exact_nonsingular" ELSE "bk_exact_singular", 1),
                                   "bk_singular_reported", IF det = 0 /\ e.info[1] = NUMISSUE THEN 1 ELSE 0), "bk_n1", IF e.n = 1 THEN 1 ELSE 0)
                    [] e.e = "Bk" /\ e.kind = "meas" ->
                         Bump(Bump(Bump(Bump(Bump(c0, "bk_meas", 1), "bk_meas_judged", IF e.qcond # QNAN /\ e.qcond <= -QEPS12(e.ty) THEN 1 ELSE 0),
                                        "bk_meas_illcond", IF e.qcond = QNAN \/ e.qcond > -QEPS12(e.ty) THEN 1 ELSE 0),
                                   "bk_n1", IF e.n = 1 THEN 1 ELSE 0), "bk_complex", IF e.ty > 10 THEN 1 ELSE 0)
                    [] e.e = "BkProto" -> Bump(c0, "bk_proto", 1)
                    [] e.e \in {"Prod", "HProd", "Solve"} -> Bump(c0, "matop_rows", 1)
                    [] e.e = "EndMatOp" -> Bump(c0, "matop_configs", Cardinality(seen))
                    [] e.e = "Qr" -> Bump(Bump(c0, "qr_rows", 1), "qr_exact", IF ExactDomain(e.cls, e.kind, e.sk) THEN 1 ELSE 0)
                    [] e.e = "Eig" -> Bump(Bump(c0, "eig_rows", 1), "eig_exact", IF e.thr = 0 /\ e.cls = "hesseig" THEN 1 ELSE 0)
                    [] OTHER -> c0
        /\ seen' = IF e.e \in {"Prod", "HProd", "Solve"} THEN seen \cup {Key(e)} ELSE seen
    /\ l' = l + 1
TrFinish ==
    /\ l = Len(Tr) + 1
    /\ JsonSerialize(OutFile, [lines |-> Len(Tr), hits |-> mon, cov |-> cov])
    /\ l' = l + 1
    /\ UNCHANGED <<mon, cov, seen>>
TrNext == TrStep \/ TrFinish
TraceSpec == TrInit /\ [][TrNext]_<<l, mon, cov, seen>>
=============================================================================
