------------------------------ MODULE MC_IRPub ------------------------------
(***************************************************************************)
(* IRSolver.tla REFINES IRPublic.tla.                                       *)
(*                                                                          *)
(* The fine-grained model is run with two history variables: pre (the       *)
(* projected public state when the running call was entered) and ck (which  *)
(* call it is and what kind of arguments it got).  The refinement mapping   *)
(*     pub == IF s.pc = "idle" THEN Proj(s) ELSE pre                        *)
(* stutters during a call; the step that returns to "idle" must be ONE      *)
(* PubStep of IRPublic.tla with the way the call ended (ret / invalid /     *)
(* fault).  TLC checks  [][PubStepOrStutter]_pub  on every transition and   *)
(* the public invariants on every reachable state.                          *)
(* The argument kind restricts which rejections are possible (an            *)
(* unsupported selection rule is rejected by the FIRST Ritz retrieval, an   *)
(* unsupported sorting rule by the final sort; supported rules never are).  *)
(***************************************************************************)
EXTENDS IRSolver
VARIABLES pre, ck, done
Pub == INSTANCE IRPublic
rvars == <<s, pre, ck, done>>

Proj(st) ==
    [nev |-> st.nev, ncv |-> st.ncv, k |-> st.k,
     fac |-> IF st.k = 0 THEN "none" ELSE IF st.facOK THEN "ok" ELSE "bad",
     inited |-> st.inited, ncomp |-> st.ncomp, info |-> st.info, count |-> st.flags,
     niter |-> st.niter, ops |-> st.ops, exc |-> st.exc]

pub == IF s.pc = "idle" THEN Proj(s) ELSE pre

RInit == Init /\ pre = Proj(s) /\ ck = [call |-> "none", kind |-> "ok"] /\ done = 0

CallInit == \E kd \in {"ok", "zero"} :
    /\ s.calls < MaxCalls /\ InitBegin /\ pre' = Proj(s) /\ ck' = [call |-> "init", kind |-> kd] /\ done' = done
CallCompute == \E kd \in {"ok", "badsel", "badsort"} :
    /\ s.calls < MaxCalls /\ ComputeBegin /\ pre' = Proj(s) /\ ck' = [call |-> "compute", kind |-> kd] /\ done' = done + 1

Internal ==
    \/ (ck.kind = "zero" /\ InitZero)
    \/ (ck.kind # "zero" /\ (FacInit \/ InitEnd))
    \/ FacNoop \/ FacThrow \/ FacBegin \/ FacStep \/ FacDone \/ RestartEnd
    \/ (ck.kind # "badsel" /\ Retrieve) \/ (ck.kind = "badsel" /\ RetrieveThrow)
    \/ NumConv \/ SkipRefresh \/ NevAdj \/ RestartBegin \/ ShiftStep \/ CompressV
    \/ SortBegin \/ (ck.kind # "badsort" /\ SortEnd) \/ (ck.kind = "badsort" /\ SortThrow)
    \/ ComputeEnd \/ (ck.kind # "zero" /\ OpThrows)

RNext == \/ CallInit \/ CallCompute
         \/ (Internal /\ UNCHANGED <<pre, ck, done>>)
RSpec == RInit /\ [][RNext]_rvars

How(st) == CASE st.exc = "none" -> "ret" [] st.exc = "invalid" -> "invalid" [] OTHER -> "fault"

\* the refinement: every step either leaves the public state alone or is one public call of IRPublic
PubStepOrStutter ==
    \/ pub' = pub
    \/ (s.pc # "idle" /\ s'.pc = "idle" /\ Pub!PubStep(pre, ck.call, ck.kind, s.maxit, How(s'), Proj(s')))
Refines == [][PubStepOrStutter]_rvars

\* the public invariants on every reachable state of the fine-grained model
PubTypeOK == Pub!PTypeOK(pub)
PubStatusIffAll == Pub!PStatusIffAll(pub)
PubInitMakesFresh == Pub!PInitMakesFresh(pub)
PubNotComputedBefore == Pub!PNotComputedBefore(pub, done)

\* negative control: the public contract strengthened to "a NotConverging run performs fewer than maxit restarts" must be REFUTED
NegTooStrong == [][s.pc # "idle" /\ s'.pc = "idle" /\ ck.call = "compute" /\ s'.exc = "none" => s'.info = "Successful"]_rvars

MC_Configs == {[gen |-> FALSE, nev |-> 2, ncv |-> 4], [gen |-> TRUE, nev |-> 1, ncv |-> 4]}
MC_ConfigsFull == {[gen |-> FALSE, nev |-> 1, ncv |-> 3], [gen |-> FALSE, nev |-> 2, ncv |-> 4],
                   [gen |-> TRUE, nev |-> 1, ncv |-> 3], [gen |-> TRUE, nev |-> 2, ncv |-> 5]}
MC_MaxItQ == {0, 2}
MC_MaxItF == {0, 1, 2}
=============================================================================
