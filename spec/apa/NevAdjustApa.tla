---------------------------- MODULE NevAdjustApa ----------------------------
(***************************************************************************)
(* Unbounded obligation for C13, discharged by Apalache (SMT): for ALL      *)
(* integers in the documented ranges the restart size returned by both      *)
(* variants of nev_adjusted() satisfies  nev <= k <= ncv - 1  (at least the *)
(* wanted pairs are kept, at least one shift is left).  The formulas are    *)
(* the transcription in NevAdjust.tla, which TLC checks row by row against  *)
(* the table extracted from the real function (nevadj_mismatch = 0).        *)
(* pairBump models the general variant's "+1 if a conjugate pair would be   *)
(* split" (any value 0/1: the range must hold for both).                    *)
(***************************************************************************)
EXTENDS Integers

VARIABLES
    \* @type: Int;
    nev,
    \* @type: Int;
    ncv,
    \* @type: Int;
    nconv,
    \* @type: Int;
    z,
    \* @type: Int;
    pairBump,
    \* @type: Bool;
    gen,
    \* @type: Int;
    k

Min(a, b) == IF a < b THEN a ELSE b

HermAdj(nv, nc, ncn, zz) ==
    LET a == nv + zz
        b == a + Min(ncn, (nc - a) \div 2)
        c == IF b = 1 /\ nc >= 6 THEN nc \div 2 ELSE IF b = 1 /\ nc > 2 THEN 2 ELSE b
    IN IF c > nc - 1 THEN nc - 1 ELSE c

GenAdj(nv, nc, ncn, zz, bump) ==
    LET a == nv + zz
        b == a + Min(ncn, (nc - a) \div 2)
        c == IF b = 1 /\ nc >= 6 THEN nc \div 2 ELSE IF b = 1 /\ nc > 3 THEN 2 ELSE b
        d == IF c > nc - 2 THEN nc - 2 ELSE c
    IN d + bump

Init ==
    /\ gen \in BOOLEAN
    /\ nev \in Int /\ ncv \in Int /\ nconv \in Int /\ z \in Int /\ pairBump \in {0, 1}
    /\ nev >= 1
    /\ (IF gen THEN ncv >= nev + 2 ELSE ncv >= nev + 1)
    /\ nconv >= 0 /\ nconv <= nev
    /\ z >= 0 /\ z <= ncv - nev
    /\ k = IF gen THEN GenAdj(nev, ncv, nconv, z, pairBump) ELSE HermAdj(nev, ncv, nconv, z)

Next == UNCHANGED <<nev, ncv, nconv, z, pairBump, gen, k>>

RangeInv == k >= nev /\ k >= 1 /\ k <= ncv - 1
\* negative control: a bound that is too strong must be refuted (Apalache reports a counterexample)
TooStrong == k <= ncv - 2
=============================================================================
