-------------------------------- MODULE Threads --------------------------------
(***************************************************************************)
(* C20: T solver instances running concurrently.  Every step of a solver is *)
(* abstracted to the set of memory LOCATIONS it reads and writes.  Threads  *)
(* are not synchronised with each other, so two accesses to one location by *)
(* different threads, at least one of them a write, are a data race         *)
(* whatever the interleaving.  The location map lists the mutable state the *)
(* code really has:                                                         *)
(*   per solver object   V, H, f, Ritz data, counters, the ArnoldiOp cache, *)
(*                       the local RNG objects                              *)
(*   per operator object the matrix it references (read only) and, for the  *)
(*                       shift-solve wrappers, their factorization / cache  *)
(*                       (written by set_shift, the complex wrapper also by *)
(*                       perform_op)                                        *)
(* Configurations: "own" (each thread its own operator), "sharedprod" (one  *)
(* shared const product wrapper), "sharedsolve" (one shared shift-solve     *)
(* wrapper: the negative control, a conflict MUST be found).                *)
(***************************************************************************)
EXTENDS Naturals, Integers, FiniteSets, Sequences
CONSTANTS T, Mode, Steps
VARIABLES pc, acc      \* pc[t]: steps done by thread t;  acc: set of <<thread, location, kind>> accesses so far
vars == <<pc, acc>>
Threads == 1 .. T

OpOf(t) == IF Mode = "own" THEN t ELSE 0
\* locations touched by one step of thread t
StepAccess(t) ==
    {<<t, <<"solver", t, "V">>, "w">>, <<t, <<"solver", t, "H">>, "w">>, <<t, <<"solver", t, "f">>, "w">>,
     <<t, <<"solver", t, "ritz">>, "w">>, <<t, <<"solver", t, "nmatop">>, "w">>, <<t, <<"solver", t, "rng">>, "w">>,
     <<t, <<"op", OpOf(t), "matrix">>, "r">>}
    \cup (IF Mode = "sharedsolve" THEN {<<t, <<"op", OpOf(t), "cache">>, "w">>} ELSE {})

Init == pc = [t \in Threads |-> 0] /\ acc = {}
Step(t) == pc[t] < Steps /\ pc' = [pc EXCEPT ![t] = @ + 1] /\ acc' = acc \cup StepAccess(t)
Next == \E t \in Threads : Step(t)
Spec == Init /\ [][Next]_vars

NoConflict == \A a, b \in acc : (a[1] # b[1] /\ a[2] = b[2]) => (a[3] = "r" /\ b[3] = "r")
=============================================================================
