----------------------------- MODULE TraceKrylov -----------------------------
(***************************************************************************)
(* Validation of recorded executions of the factorization classes           *)
(* (harness/drv_krylov.cpp) against spec/Krylov.tla.  The executions follow *)
(* behaviours that TLC generated from the same module (tools/krygen.py), so *)
(* this closes the loop  specification -> code -> specification:            *)
(*   - each KOp line is one public call; the action it names is taken with  *)
(*     the SAME guard and update operators as the design model; a guard     *)
(*     that does not hold is a hit (G:...), the state after the call must   *)
(*     agree with what the object reports (subspace_dim, throw / no throw,  *)
(*     unchanged digest, operator applications, hook events);               *)
(*   - the design invariants P_* are evaluated on every state (I:...);      *)
(*   - MFac / MShift lines carry magnitudes measured in long double by the  *)
(*     harness; the Krylov identities are judged here, with a rounding      *)
(*     budget that grows with the number of compress cycles (st.cyc).       *)
(***************************************************************************)
EXTENDS Krylov, TLC, Json, IOUtils, TraceLib

VARIABLES l, st, cx, mon, cov
Tr == ndJsonDeserialize(IOEnv.TRACE)
OutFile == IOEnv.OUT
CovKeys == {"rows", "runs", "calls", "init", "extend", "extend_partial", "noop", "throw", "initzero", "shift1", "shift2", "compressV",
            "cycles_to_dim1", "restarts_in_extend", "fac_judged", "shift_judged", "kind_arnoldi", "kind_lanczos", "complex", "binner", "maxcyc", "maxlen"}
Bump(c, key, by) == [c EXCEPT ![key] = @ + by]
RunOf(k) == Cardinality({i \in 1 .. k : Tr[i].e = "Reset"})
Hit(rule) == [r |-> rule, run |-> RunOf(l), l |-> l]
If(c, rule) == IF c THEN {} ELSE {Hit(rule)}
AddHits(m, new) == IF Cardinality(m) > 300 THEN m ELSE m \cup new
QC_KRY == 160

InvHits(s) ==
    If(TypeOK(s), "KI:TypeOK") \cup If(P_DimInRange(s), "KI:DimInRange") \cup If(P_NewIsEmpty(s), "KI:NewIsEmpty")
    \cup If(P_ShiftAccount(s), "KI:ShiftAccount") \cup If(P_FactClean(s), "KI:FactClean") \cup If(P_HandOver(s), "KI:HandOver") \cup If(P_OpsLower(s), "KI:OpsLower")

\* the action a KOp line names: [ok: guard holds, nxt: successor]
ActionOf(e) ==
    CASE e.op = "I" -> [ok |-> G_Init(st), nxt |-> U_Init(st), g |-> "G:Init"]
      [] e.op = "Z" -> [ok |-> TRUE, nxt |-> U_InitZero(st), g |-> "G:InitZero"]
      [] e.op = "E" -> [ok |-> G_Extend(st, e.a1), nxt |-> U_Extend(st, e.a1), g |-> "G:Extend"]
      [] e.op = "N" -> [ok |-> G_Noop(st, e.a1, e.a2), nxt |-> U_Noop(st, e.a1, e.a2), g |-> "G:Noop"]
      [] e.op = "T" -> [ok |-> G_Throw(st, e.a1, e.a2), nxt |-> U_Throw(st, e.a1, e.a2), g |-> "G:Throw"]
      [] e.op = "S" -> [ok |-> G_Shift(st, e.a1), nxt |-> U_Shift(st, e.a1), g |-> "G:Shift"]
      [] e.op = "V" -> [ok |-> G_CompressV(st), nxt |-> U_CompressV(st), g |-> "G:CompressV"]
      [] OTHER -> [ok |-> FALSE, nxt |-> st, g |-> "UnknownCall"]

Allocated(e) == e.vrows = cx.n /\ e.vcols = st.m /\ e.hrows = st.m /\ e.frows = cx.n
CallHits(e, a) ==
    LET n == a.nxt IN
    If(a.ok, a.g)
    \cup If(e.dim = n.dim, "DimAdvertised")
    \cup (CASE e.op = "I" -> If(e.thr = 0, "InitAccepted") \cup If(e.dops = 2 /\ e.tops = 2, "InitCostsTwoApplications") \cup If(e.ninit = 1, "InitEvent") \cup If(Allocated(e), "Shapes")
            [] e.op = "Z" -> If(e.thr = 1, "ZeroStartRejected") \cup If(e.same = 1 /\ e.dops = 0 /\ e.tops = 0, "RejectedCallChangesNothing")
            [] e.op = "E" -> If(e.thr = 0, "ExtendAccepted")
                             \cup If(e.nstep = e.a1 - st.dim /\ e.inorder = 1 /\ e.nbegin = 1 /\ e.ndone = 1, "OneStepPerColumn")
                             \cup If(e.dops = e.tops, "ClaimedOpsAreTrueOps")
                             \cup If(e.tops = (e.a1 - st.dim) + e.nrestart, "OneApplicationPerColumnPlusRestarts")
                             \cup If(e.nexp = e.nrestart /\ e.expfail = 0, "ExpandBasisSucceeds")
                             \cup If(Allocated(e), "Shapes")
            [] e.op = "N" -> If(e.thr = 0 /\ e.nnoop = 1, "EmptyRangeReturnsAtOnce") \cup If(e.same = 1 /\ e.dops = 0 /\ e.tops = 0, "RejectedCallChangesNothing")
            [] e.op = "T" -> If(e.thr = 1 /\ e.nthrow = 1, "FromBeyondDimRejected") \cup If(e.same = 1 /\ e.dops = 0 /\ e.tops = 0, "RejectedCallChangesNothing")
            [] e.op = "S" -> If(e.thr = 0 /\ e.nch = 1 /\ e.chk = n.dim, "CompressHEvent") \cup If(e.dops = 0 /\ e.tops = 0, "CompressTouchesNoOperator")
            [] e.op = "V" -> If(e.thr = 0 /\ e.ncv = 1 /\ e.cvk = n.dim, "CompressVEvent") \cup If(e.dops = 0 /\ e.tops = 0, "CompressTouchesNoOperator") \cup If(Allocated(e), "Shapes")
            [] OTHER -> {})
    \cup If(e.other = 0, "NoForeignEvents")
    \cup InvHits(n)

\* rounding budget of the identities: grows with the compress cycles carried by this factorization and, while shifts are pending, with their number
KryBound == QC_KRY + cx.qn + QEPS(cx.ty) + QLog2Up(st.cyc + st.pend + 1) + cx.qcond
FacHits(e) ==
    If(st.ph = "fact", "MeasuredInFactPhase") \cup If(e.shape = 1, "FacShape")
    \cup (IF e.shape = 1 THEN
            If(e.fin = 1, "FacFinite")
            \cup If(QLe(e.qAV, KryBound), "KrylovAV")
            \cup If(QLe(e.qVV, KryBound), "KrylovVV")
            \cup If(QLe(e.qVf, KryBound) \/ QLe(e.qVfr, KryBound + 64), "KrylovVf")
            \cup If(QLe(e.qbeta, KryBound), "KrylovBeta")
            \cup If(QLe(e.qHlow, KryBound), "Hessenberg")
            \cup If(e.tri = 1, "TridiagonalSymmetric")
            \cup If(QLe(e.qHim, KryBound), "KrylovRealH")
            \cup If(e.k = st.dim, "KAdvertised")
          ELSE {})
ShiftHits(e) ==
    If(st.ph = "shift", "MeasuredInShiftPhase")
    \cup If(e.fin = 1, "ShiftFinite")
    \cup If(QLe(e.qtr, KryBound) /\ QLe(e.qfro, KryBound) /\ QLe(e.qsim, KryBound), "ShiftIsSimilarity")
    \cup If(QLe(e.qQQ, KryBound), "ShiftQOrthogonal")
    \cup If(QLe(e.qHlow, KryBound), "ShiftKeepsHessenberg")
    \cup If(e.lz = 0 \/ (QLe(e.qoff, KryBound) /\ QLe(e.qasym, KryBound) /\ QLe(e.qHim, KryBound)), "ShiftKeepsSymmetricTridiagonal")
    \cup If(QLe(e.qband, KryBound), "ShiftQBandShape")

TrInit == l = 1 /\ st = Fresh(1, 1) /\ cx = [ty |-> 2, n |-> 1, qn |-> 0, qcond |-> 0] /\ mon = {} /\ cov = [key \in CovKeys |-> 0]
MaxI(a, b) == IF a > b THEN a ELSE b
TrStep ==
    /\ l <= Len(Tr)
    /\ LET e == Tr[l]
           a == IF e.e = "KOp" THEN ActionOf(e) ELSE [ok |-> TRUE, nxt |-> st, g |-> ""] IN
        /\ st' = CASE e.e = "Reset" -> Fresh(e.kind, e.m)
                   [] e.e = "KOp" -> a.nxt
                   [] OTHER -> st
        /\ cx' = IF e.e = "Reset" THEN [ty |-> e.ty, n |-> e.n, qn |-> e.qn, qcond |-> e.qcond] ELSE cx
        /\ mon' = AddHits(mon, CASE e.e = "KOp" -> CallHits(e, a)
                                 [] e.e = "MFac" -> FacHits(e)
                                 [] e.e = "MShift" -> ShiftHits(e)
                                 [] e.e = "KEnd" -> If(e.calls = Len(st.hist), "EveryCallLogged")
                                 [] e.e = "Abort" -> {Hit("KAbort")}
                                 [] e.e = "Reset" -> {}
                                 [] e.e = "OutOfRange" -> {Hit("OutOfRange")}
                                 [] OTHER -> {Hit("KUnknownRow")})
        /\ cov' = LET c0 == Bump(cov, "rows", 1) IN
                  CASE e.e = "Reset" -> Bump(Bump(Bump(Bump(c0, "runs", 1), IF e.kind = 1 THEN "kind_arnoldi" ELSE "kind_lanczos", 1),
                                                  "complex", IF e.ty > 10 THEN 1 ELSE 0), "binner", IF e.qcond > 0 THEN 1 ELSE 0)
                    [] e.e = "KOp" ->
                         LET c1 == Bump(c0, "calls", 1)
                             key == CASE e.op = "I" -> "init" [] e.op = "Z" -> "initzero" [] e.op = "E" -> "extend" [] e.op = "N" -> "noop"
                                      [] e.op = "T" -> "throw" [] e.op = "S" -> (IF e.a1 = 2 THEN "shift2" ELSE "shift1") [] OTHER -> "compressV"
                             c2 == Bump(c1, key, 1)
                             c3 == Bump(c2, "extend_partial", IF e.op = "E" /\ e.a1 < st.m THEN 1 ELSE 0)
                             c4 == Bump(c3, "cycles_to_dim1", IF e.op = "V" /\ a.nxt.dim = 1 THEN 1 ELSE 0)
                             c5 == Bump(c4, "restarts_in_extend", IF e.op = "E" THEN e.nrestart ELSE 0)
                             c6 == Bump(c5, "maxcyc", MaxI(0, a.nxt.cyc - cov["maxcyc"]))
                         IN Bump(c6, "maxlen", MaxI(0, Len(a.nxt.hist) - cov["maxlen"]))
                    [] e.e = "MFac" -> Bump(c0, "fac_judged", 1)
                    [] e.e = "MShift" -> Bump(c0, "shift_judged", 1)
                    [] OTHER -> c0
    /\ l' = l + 1
TrFinish ==
    /\ l = Len(Tr) + 1
    /\ JsonSerialize(OutFile, [lines |-> Len(Tr), hits |-> mon, cov |-> cov])
    /\ l' = l + 1
    /\ UNCHANGED <<st, cx, mon, cov>>
TrNext == TrStep \/ TrFinish
TraceSpec == TrInit /\ [][TrNext]_<<l, st, cx, mon, cov>>
=============================================================================
