------------------------------ MODULE TraceFn ------------------------------
(***************************************************************************)
(* Validation of tables extracted from the real code (harness/drv_fn.cpp)   *)
(* against the function specifications:                                     *)
(*   Sort rows     (C18)  SelectionRule.tla: permutation ordered by the     *)
(*                        rule's key / BothEnds prefix property / rejection *)
(*   Walk, Checkpoints, Trans, Seeds, Draw, CDraw, Purity rows (C19)        *)
(*                        ParkMiller.tla                                    *)
(*   NevAdj rows   (C13)  NevAdjust.tla: range relation and safety of the   *)
(*                        shift loop from the value the REAL function       *)
(*                        returned (the extracted table plugged into the    *)
(*                        loop model)                                       *)
(* Every row is one step; hits accumulate in mon and are written to OUT.    *)
(***************************************************************************)
EXTENDS Naturals, Integers, Sequences, FiniteSets, TLC, Json, IOUtils

SR == INSTANCE SelectionRule
PM == INSTANCE ParkMiller
NA == INSTANCE NevAdjust

VARIABLES l, mon, cov
Tr == ndJsonDeserialize(IOEnv.TRACE)
OutFile == IOEnv.OUT

CovKeys == {"rows", "sort_rows", "sort_real", "sort_cplx", "sort_rejected", "sort_ties", "sort_bothends", "sort_long",
            "trans", "checkpoints", "seeds", "draws", "nevadj_rows", "nevadj_gen", "nevadj_herm", "nevadj_double", "nevadj_mismatch",
            "walk_steps_hi", "sort_len0", "sort_len1", "sort_vectors"}
Bump(c, key, by) == [c EXCEPT ![key] = @ + by]
\* run = ordinal of the Reset line (descriptor) this row belongs to; computed only when a hit is recorded
RunOf(k) == Cardinality({i \in 1 .. k : Tr[i].e = "Reset"})
Hit(rule) == [r |-> rule, run |-> RunOf(l), l |-> l]
AddHits(m, new) == IF Cardinality(m) > 200 THEN m ELSE m \cup new
If(c, rule) == IF c THEN {} ELSE {Hit(rule)}

\* ---------------------------------------------------------------- C18
KeysOf(e) ==
    LET n == Len(e.re) IN
    [i \in 1 .. n |-> SR!Key(e.rule, e.cx = 1, e.re[i], IF e.cx = 1 THEN e.im[i] ELSE 0)]
HasTies(keys) == \E i, j \in 1 .. Len(keys) : i < j /\ keys[i] = keys[j]

SortHits(e) ==
    LET n == Len(e.re)
        keys == KeysOf(e)
        defined == IF e.cx = 1 THEN SR!DefinedCplx(e.rule) ELSE SR!DefinedReal(e.rule)
    IN
    IF e.fn = "argsort"
    THEN \* the dispatching helper: defined rules give an ordered permutation, all others are rejected whatever the length
         IF defined
         THEN If(e.thr = 0, "AcceptsDefinedRule")
              \cup (IF e.thr = 0 THEN If(SR!IsPerm(e.res, n), "IsPermutation")
                                      \cup (IF SR!IsPerm(e.res, n)
                                            THEN (IF e.rule = 8 THEN If(SR!BothEnds(e.res, keys), "BothEndsPrefix")
                                                  ELSE If(SR!Sorted(e.rule, e.res, keys), "OrderedByKey"))
                                            ELSE {})
                    ELSE {})
         ELSE If(e.thr = 1, "RejectsUndefinedRule")
    ELSE \* the class template SortEigenvalue<T, Rule>: thr = 9 marks a rule that does not compile for complex values
         IF e.thr = 9 THEN If(e.cx = 1 /\ ~defined, "CompileTimeRejection")
         ELSE IF defined
              THEN If(e.thr = 0, "AcceptsDefinedRule")
                   \cup (IF e.thr = 0 THEN If(SR!IsPerm(e.res, n), "IsPermutation")
                                           \cup (IF SR!IsPerm(e.res, n) THEN If(SR!Sorted(e.rule, e.res, keys), "OrderedByKey") ELSE {})
                         ELSE {})
              ELSE \* undefined rule: the comparator throws as soon as it is invoked (n >= 2); never an unordered result
                   If(e.thr = 1 \/ (n <= 1 /\ e.thr = 0 /\ SR!IsPerm(e.res, n)), "RejectsUndefinedRule")

\* ---------------------------------------------------------------- C19
Pow2(k) == 2 ^ k
RngHits(e) ==
    CASE e.e = "Trans" -> If(\A i \in 1 .. Len(e.s) : e.n[i] = PM!Next(e.s[i]) /\ e.n[i] \in 1 .. PM!M - 1, "ExactParkMillerStep")
      [] e.e = "Walk" ->
           \* every step agreed with the 64-bit product, no state left 1..M-1, and the walk ends where A^steps says
           LET a20 == PM!PowMod(PM!A, 1048576)
               astep == PM!MulMod(PM!PowMod(a20, e.steps_hi), PM!PowMod(PM!A, e.steps_lo))
           IN If(e.bad = 0, "WalkStepsExact") \cup If(e.degenerate = 0, "NeverDegenerate") \cup If(e.final = astep, "WalkEndsAtPower")
      [] e.e = "Checkpoints" ->
           LET jump == PM!PowMod(PM!A, Pow2(e.cpbits)) IN
           If(\A i \in 1 .. Len(e.cp) - 1 : e.cp[i + 1] = PM!MulMod(jump, e.cp[i]), "CheckpointsOnCycle")
      [] e.e = "Seeds" ->
           If(\A i \in 1 .. Len(e.r) : e.q[i] = 0 /\ PM!NormSeed(e.r[i]) \in 1 .. PM!M - 1
                                       /\ e.first[i] = PM!Next(PM!NormSeed(e.r[i])), "SeedNormalised")
      [] e.e = "Draw" ->
           LET nx == PM!Next(PM!NormSeed(e.seed)) w0 == nx \div 128 IN
           If(e.inrange = 1, "DrawInRange") \cup If(e.w >= w0 - 3 /\ e.w <= w0 + 3, "DrawIsStateOverM")
      [] e.e = "CDraw" -> If(e.inrange = 1, "DrawInRange") \cup If(e.twostates = 1, "ComplexDrawTwoStates")
      [] e.e = "InitVec" ->
           \* the start vector of a default init() is the stream of seed 0: state_i = A^i * NormSeed(0), draw_i = state_i / M - 0.5
           LET st == [i \in 1 .. Len(e.w) |-> PM!MulMod(PM!PowMod(PM!A, i), PM!NormSeed(0))] IN
           If(Len(e.w) > 0 /\ \A i \in 1 .. Len(e.w) : e.w[i] >= st[i] \div 128 - 3 /\ e.w[i] <= st[i] \div 128 + 3, "DefaultInitIsSeed0Stream")
      [] e.e = "Purity" -> If(e.same_stream = 1, "SeedPure") \cup If(e.vec_is_len_draws = 1, "VecConsumesLenStates")
      [] OTHER -> {}

\* ---------------------------------------------------------------- C13 (extracted nev_adjusted table)
NevHits(e) ==
    IF e.gen = 1
    THEN If(e.thr = 0, "NevAdjNoIndexAssert")
         \cup (IF e.thr = 0 THEN If(NA!RangeOK(e.nev, e.ncv, e.k), "NevAdjRange")
                                 \cup (IF NA!RangeOK(e.nev, e.ncv, e.k) THEN If(NA!LoopSafe(e.tok, e.pid, e.k, e.ncv, TRUE), "ShiftLoopSafeFromTable") ELSE {})
               ELSE {})
    ELSE If(e.thr = 0, "NevAdjNoIndexAssert") \cup If(NA!RangeOK(e.nev, e.ncv, e.k), "NevAdjRange")
NevMismatch(e) ==
    IF e.thr # 0 THEN 0
    ELSE IF e.gen = 1 THEN (IF e.k = NA!GenAdj(e.nev, e.ncv, e.nconv, e.z, e.tok, e.pid) THEN 0 ELSE 1)
         ELSE (IF e.k = NA!HermAdj(e.nev, e.ncv, e.nconv, e.z) THEN 0 ELSE 1)
NevDouble(e) == IF e.gen = 1 /\ e.thr = 0 /\ NA!RangeOK(e.nev, e.ncv, e.k) THEN NA!ShiftLoop(e.tok, e.pid, e.k, e.ncv, TRUE, 0).dbl ELSE 0

TrInit == l = 1 /\ mon = {} /\ cov = [key \in CovKeys |-> 0]

TrStep ==
    /\ l <= Len(Tr)
    /\ LET e == Tr[l] IN
        /\ mon' = AddHits(mon, CASE e.e = "Sort" -> SortHits(e)
                                 [] e.e = "NevAdj" -> NevHits(e)
                                 [] e.e \in {"Trans", "Walk", "Checkpoints", "Seeds", "Draw", "CDraw", "Purity", "InitVec"} -> RngHits(e)
                                 [] e.e \in {"EndSort", "EndRng", "EndNevAdj", "Reset"} -> {}
                                 [] e.e = "OutOfRange" -> {Hit("OutOfRange")}
                                 [] OTHER -> {Hit("UnknownRow")})
        /\ cov' = LET c0 == Bump(cov, "rows", 1) IN
                  CASE e.e = "Sort" ->
                         LET c1 == Bump(Bump(c0, "sort_rows", 1), IF e.cx = 1 THEN "sort_cplx" ELSE "sort_real", 1)
                             c2 == Bump(c1, "sort_rejected", IF e.thr # 0 THEN 1 ELSE 0)
                             c3 == Bump(c2, "sort_ties", IF HasTies(KeysOf(e)) THEN 1 ELSE 0)
                             c4 == Bump(c3, "sort_bothends", IF e.rule = 8 /\ e.fn = "argsort" THEN 1 ELSE 0)
                             c5 == Bump(c4, "sort_long", IF Len(e.re) > 7 THEN 1 ELSE 0)
                             c6 == Bump(c5, "sort_len0", IF Len(e.re) = 0 THEN 1 ELSE 0)
                         IN Bump(c6, "sort_len1", IF Len(e.re) = 1 THEN 1 ELSE 0)
                    [] e.e = "EndSort" -> Bump(c0, "sort_vectors", e.ord)
                    [] e.e = "Trans" -> Bump(c0, "trans", Len(e.s))
                    [] e.e = "Checkpoints" -> Bump(c0, "checkpoints", Len(e.cp) - 1)
                    [] e.e = "Seeds" -> Bump(c0, "seeds", Len(e.r))
                    [] e.e \in {"Draw", "CDraw"} -> Bump(c0, "draws", 1)
                    [] e.e = "Walk" -> Bump(c0, "walk_steps_hi", e.steps_hi)
                    [] e.e = "NevAdj" -> Bump(Bump(Bump(Bump(c0, "nevadj_rows", 1), IF e.gen = 1 THEN "nevadj_gen" ELSE "nevadj_herm", 1),
                                                   "nevadj_double", NevDouble(e)), "nevadj_mismatch", NevMismatch(e))
                    [] OTHER -> c0
    /\ l' = l + 1

TrFinish ==
    /\ l = Len(Tr) + 1
    /\ JsonSerialize(OutFile, [lines |-> Len(Tr), hits |-> mon, cov |-> cov])
    /\ l' = l + 1
    /\ UNCHANGED <<mon, cov>>

TrNext == TrStep \/ TrFinish
TraceSpec == TrInit /\ [][TrNext]_<<l, mon, cov>>
=============================================================================
