------------------------------- MODULE TraceAux -------------------------------
(***************************************************************************)
(* Validation of recorded runs of the Davidson solver (C15), the partial    *)
(* SVD solver (C16) and LOBPCG (C17) (harness/drv_aux.cpp).  Magnitudes are *)
(* measured in long double by the harness; every acceptance inequality and  *)
(* every count/shape/order relation is evaluated here.                      *)
(***************************************************************************)
EXTENDS Naturals, Integers, Sequences, FiniteSets, TLC, Json, IOUtils, TraceLib

VARIABLES l, mon, cov
Tr == ndJsonDeserialize(IOEnv.TRACE)
OutFile == IOEnv.OUT
CovKeys == {"rows", "svd_rows", "svd_second_compute", "svd_rank_deficient", "svd_tall", "svd_wide", "svd_square", "svd_factor_judged",
            "lob_rows", "lob_success", "lob_not_success", "lob_threw", "dav_rows", "dav_successful", "dav_notconv", "dav_restarts", "dav_guess", "dav_threw",
            "jd_iters", "mt_jobs", "mt_shared", "mt_private", "mt_breakdown", "mt_threads_max"}
Bump(c, key, by) == [c EXCEPT ![key] = @ + by]
\* run = ordinal of the Reset line (descriptor) this row belongs to; computed only when a hit is recorded
RunOf(k) == Cardinality({i \in 1 .. k : Tr[i].e = "Reset"})
Hit(rule) == [r |-> rule, run |-> RunOf(l), l |-> l]
If(c, rule) == IF c THEN {} ELSE {Hit(rule)}
AddHits(m, new) == IF Cardinality(m) > 300 THEN m ELSE m \cup new
MinI2(a, b) == IF a < b THEN a ELSE b
EPSD == QEPS(2)
QC == 128

\* ---------------------------------------------------------------- C16
\* factor identities only for requested singular values above 1e-4 ||A|| (q(1e-4) = -213)
SvdLeading(e) == \A i \in 1 .. Len(e.qsrel) : e.qsrel[i] >= -213
SvdPartial(e) == "partial" \in DOMAIN e
SvdHits(e) ==
    If(e.fin = 1, "SvdFinite") \cup If(e.nonneg = 1, "SingularValuesNonNegative") \cup If(e.noninc = 1, "SingularValuesNonIncreasing")
    \cup If(e.nsv = e.nconv /\ e.nconv <= e.ncomp, "CountsAgree")
    \cup If(\A i \in 1 .. Len(e.ks) : e.uc[i] = MinI2(e.ks[i], e.nconv) /\ e.vc[i] = MinI2(e.ks[i], e.nconv), "ColsAreMinKNconv")
    \cup If(e.urows = e.m /\ e.vrows = e.n, "FactorShapes")
    \* any order of calls: matrix_U(1) first, then matrix_V(ncomp) and matrix_U(ncomp) still return min(ncomp, nconv) columns
    \cup If(SvdPartial(e) \/ (e.inc_u1 = MinI2(1, e.inc_nconv) /\ e.inc_v = MinI2(e.ncomp, e.inc_nconv) /\ e.inc_u = MinI2(e.ncomp, e.inc_nconv)), "ColsIndependentOfCallOrder")
    \* matrix_U / matrix_V always describe the most recent compute(): same bits as a fresh solver given the same call
    \cup (IF SvdPartial(e) THEN {} ELSE If(e.dg = e.fdg /\ e.nconv = e.fnconv, "DescribesMostRecentCompute"))
    \cup (IF e.nconv > 0 /\ SvdLeading(e)
          THEN LET bnd == SumBound(e.qtol + QC, QC + e.qn + EPSD) IN
               If(\A i \in 1 .. Len(e.qdist) : QLe(e.qdist[i], bnd), "MatchesLargestSingularValues")
               \cup If(e.ffin = 1, "FactorsFinite")
               \cup If(QLe(e.qUU, bnd) /\ QLe(e.qVV, bnd), "FactorsOrthonormal")
               \cup If(QLe(e.qAV, bnd) /\ QLe(e.qAtU, bnd), "FactorIdentities")
          ELSE {})

\* ---------------------------------------------------------------- C17
LobHits(e) ==
    IF e.thr = 1 THEN {Hit("LobpcgThrew")}
    ELSE IF e.info # 0 THEN {}                       \* not successful: the status says so, nothing is claimed
    ELSE If(e.fin = 1, "LobFinite")
         \cup If(e.nev = e.k, "ReturnsKEigenvalues")
         \cup If(e.xrows = e.n /\ e.xcols = e.k, "EigenvectorsShapeNbyK")
         \cup If(e.rrows = e.n /\ e.rcols = e.k, "ResidualsShapeNbyK")
         \cup If(e.asc = 1, "EigenvaluesAscending")
         \cup If(\A i \in 1 .. Len(e.qdist) : QLe(e.qdist[i], SumBound(e.qtol + 64, QC + e.qn + EPSD)), "SmallestEigenvalues")
         \cup If(QLe(e.qBorth, QC + e.qn + EPSD + 160), "BOrthonormal")
         \cup If(QLe(e.qResId, QC + e.qn + EPSD), "ResidualsAreAXminusBXL")
         \cup If(QLe(e.qResMax, e.qtol), "ResidualNormsBelowTol")

\* ---------------------------------------------------------------- C15
DavKeys(e) == IF e.rule \in {3, 7} THEN e.kA ELSE e.kM
\* the returned reference indices are the nev extreme ones by the rule (reference sorted ascending algebraically; refM = magnitude ranks)
DavWanted(e) ==
    LET n == e.n k == e.nev IN
    CASE e.rule = 3 -> (n - k + 1) .. n
      [] e.rule = 7 -> 1 .. k
      [] e.rule = 0 -> {i \in 1 .. n : Cardinality({j \in 1 .. n : e.refM[j] > e.refM[i]}) < k}
      [] OTHER -> {i \in 1 .. n : Cardinality({j \in 1 .. n : e.refM[j] < e.refM[i]}) < k}
DavHits(e) ==
    IF e.thr # 0 THEN {Hit("DavidsonThrew")}
    ELSE If(e.fin = 1, "NeverNaN")
         \cup If(e.info \in {0, 2, 3}, "StatusDocumented")
         \cup (IF e.info = 0
               THEN If(e.ret = e.nev /\ e.nval = e.nev /\ e.xcols = e.nev /\ e.xrows = e.n, "SuccessfulReturnsNev")
                    \cup If(\A i \in 1 .. Len(e.qres) : e.qres[i] = QZERO \/ e.qres[i] <= e.qtol + 8, "SuccessfulMeansTrueResidual")
                    \cup If(\A i \in 1 .. Len(e.qnx) : QLe(e.qnx[i], QC + e.qn + EPSD), "UnitNorm")
                    \cup If(QLe(e.qorth, QC + e.qn + EPSD + 96), "Orthonormal")
                    \cup If(OrderedKeys(e.rule, DavKeys(e)), "OrderedByRule")
                    \cup (IF Cardinality(DavWanted(e)) = e.nev /\ e.sep = 1
                          THEN If({e.ridx[i] : i \in 1 .. Len(e.ridx)} = DavWanted(e), "ReturnedIsWanted") ELSE {})
               ELSE {})

\* ---------------------------------------------------------------- C20
\* a job run concurrently with others produces event for event the same trace and bit for bit the same results as when run alone
MtHits(e) ==
    If(e.con_n = e.seq_n /\ e.con_ev = e.seq_ev, "ConcurrentTraceIdentical") \cup If(e.con_res = e.seq_res, "ConcurrentResultsIdentical")

TrInit == l = 1 /\ mon = {} /\ cov = [key \in CovKeys |-> 0]
TrStep ==
    /\ l <= Len(Tr)
    /\ LET e == Tr[l] IN
        /\ mon' = AddHits(mon, CASE e.e = "Svd" -> SvdHits(e)
                                 [] e.e = "Lob" -> LobHits(e)
                                 [] e.e = "Dav" -> DavHits(e)
                                 [] e.e = "MtJob" -> MtHits(e)
                                 [] e.e = "Abort" -> {Hit("Abort")}
                                 [] e.e \in {"Reset", "EndAux", "JDIter", "EndMt"} -> {}
                                 [] OTHER -> {Hit("UnknownRow")})
        /\ cov' = LET c0 == Bump(cov, "rows", 1) IN
                  CASE e.e = "Svd" -> Bump(Bump(Bump(Bump(Bump(c0, "svd_rows", 1), "svd_second_compute", IF e.call = 2 THEN 1 ELSE 0),
                                               "svd_rank_deficient", IF e.rank < MinI2(e.m, e.n) THEN 1 ELSE 0),
                                          IF e.m > e.n THEN "svd_tall" ELSE IF e.m < e.n THEN "svd_wide" ELSE "svd_square", 1),
                                     "svd_factor_judged", IF e.nconv > 0 /\ SvdLeading(e) THEN 1 ELSE 0)
                    [] e.e = "Lob" -> Bump(Bump(c0, "lob_rows", 1), IF e.thr = 1 THEN "lob_threw" ELSE IF e.info = 0 THEN "lob_success" ELSE "lob_not_success", 1)
                    [] e.e = "Dav" -> IF e.thr # 0 THEN Bump(Bump(c0, "dav_rows", 1), "dav_threw", 1)
                                      ELSE Bump(Bump(Bump(c0, "dav_rows", 1), IF e.info = 0 THEN "dav_successful" ELSE "dav_notconv", 1), "dav_guess", IF e.guess > 0 THEN 1 ELSE 0)
                    [] e.e = "MtJob" -> Bump(Bump(Bump(Bump(c0, "mt_jobs", 1), IF e.shared = 1 THEN "mt_shared" ELSE "mt_private", 1), "mt_breakdown", e.variant),
                                            "mt_threads_max", IF e.threads > cov["mt_threads_max"] THEN e.threads - cov["mt_threads_max"] ELSE 0)
                    [] e.e = "JDIter" -> Bump(Bump(c0, "jd_iters", 1), "dav_restarts", e.v[3])
                    [] OTHER -> c0
    /\ l' = l + 1
TrFinish ==
    /\ l = Len(Tr) + 1
    /\ JsonSerialize(OutFile, [lines |-> Len(Tr), hits |-> mon, cov |-> cov])
    /\ l' = l + 1
    /\ UNCHANGED <<mon, cov>>
TrNext == TrStep \/ TrFinish
TraceSpec == TrInit /\ [][TrNext]_<<l, mon, cov>>
=============================================================================
