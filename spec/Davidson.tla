------------------------------- MODULE Davidson -------------------------------
(***************************************************************************)
(* The Davidson loop of JDSymEigsBase.h (C15) as a state machine over the   *)
(* size of the search space: setup, restart when the space exceeds its      *)
(* maximum, product update, small eigenproblem, convergence test, correction*)
(* and extension.  Parameters are adjusted exactly as initialize() does.    *)
(*                                                                          *)
(* The object lives through several calls: compute() and                    *)
(* compute_with_guess() are two public entry points into the same loop.     *)
(* The status must describe the call that just returned (maxit >= 1):       *)
(* Successful exactly when THIS call's convergence test passed.             *)
(* V_StatusPerCall = FALSE is the design in which only compute() resets the *)
(* status and the loop no longer assigns NotConverging itself (it is set    *)
(* after the loop only if the status is still NotComputed): a               *)
(* compute_with_guess() that does not converge after a successful call      *)
(* keeps reporting Successful (negative control).                           *)
(***************************************************************************)
EXTENDS DavidsonOps
CONSTANTS NMax, MaxIt, MaxCalls, V_StatusPerCall
VARIABLES n, nev, init, maxs, corr, size, niter, info, pc, calls, conv
vars == <<n, nev, init, maxs, corr, size, niter, info, pc, calls, conv>>
Init ==
    /\ n \in 3 .. NMax /\ nev \in 1 .. NMax /\ nev <= n - 1
    \* domain of C15: initial + correction <= n; at least nev initial vectors; the maximal space leaves room for one correction
    /\ \E i0 \in 1 .. NMax + 2, m0 \in 1 .. NMax + 2 :
          /\ i0 >= nev /\ i0 + nev <= n /\ m0 >= i0 + nev
          /\ LET a == Adj(n, nev, i0, m0) IN init = a.init /\ maxs = a.maxs /\ corr = a.corr
    /\ size = 0 /\ niter = 0 /\ info = "NotComputed" /\ pc = "idle" /\ calls = 0 /\ conv = FALSE

Par == [n |-> n, nev |-> nev, init |-> init, maxs |-> maxs, corr |-> corr]
\* a public call: compute() builds the initial space itself, compute_with_guess() takes the caller's; both enter the same loop
Call(entry) ==
    /\ pc = "idle" /\ calls < MaxCalls /\ calls' = calls + 1 /\ conv' = FALSE /\ niter' = 0 /\ pc' = "setup"
    /\ info' = IF V_StatusPerCall \/ entry = "compute" THEN "NotComputed" ELSE info
    /\ UNCHANGED <<n, nev, init, maxs, corr, size>>
Setup == pc = "setup" /\ size' = init /\ pc' = "top" /\ UNCHANGED <<n, nev, init, maxs, corr, niter, info, calls, conv>>
Top ==
    /\ pc = "top" /\ niter < MaxIt
    /\ size' = D_TopSize(size, Par)                        \* restart keeps `init` Ritz vectors
    /\ pc' = "small" /\ UNCHANGED <<n, nev, init, maxs, corr, niter, info, calls, conv>>
Exhausted == pc = "top" /\ niter >= MaxIt /\ pc' = "idle" /\ UNCHANGED <<n, nev, init, maxs, corr, size, niter, calls, conv>>
             /\ info' = IF ~V_StatusPerCall /\ info = "NotComputed" THEN "NotConverging" ELSE info
Small ==
    /\ pc = "small"
    /\ \/ pc' = "idle" /\ info' = "Successful" /\ conv' = TRUE /\ UNCHANGED <<size, niter>>
       \/ /\ niter = MaxIt - 1 /\ pc' = "idle" /\ UNCHANGED <<size, niter, conv>>
          /\ info' = IF V_StatusPerCall THEN "NotConverging" ELSE (IF info = "NotComputed" THEN "NotConverging" ELSE info)
       \/ niter < MaxIt - 1 /\ pc' = "top" /\ size' = D_Extend(size, Par) /\ niter' = niter + 1 /\ UNCHANGED <<info, conv>>
    /\ UNCHANGED <<n, nev, init, maxs, corr, calls>>
Next == Call("compute") \/ Call("guess") \/ Setup \/ Top \/ Exhausted \/ Small
Spec == Init /\ [][Next]_vars

\* the small eigenproblem needs at least nev Ritz pairs and a basis that fits into R^n
SpaceHoldsNev == pc = "small" => P_SpaceHoldsNev(size, Par)
SpaceFits == pc = "small" => P_SpaceFits(size, Par)
IterBounded == niter <= MaxIt
Returned == pc = "idle" /\ calls > 0
StatusDocumented == Returned /\ MaxIt > 0 => info \in {"Successful", "NotConverging"}
\* C15: "when the Davidson solver reports Successful, each of the nev returned pairs satisfies ..." - the status describes the call that
\* just returned, also when the object was used before and when the caller supplies the initial space
StatusDescribesThisCall == Returned /\ MaxIt > 0 => ((info = "Successful") = conv)
=============================================================================
