------------------------------- MODULE Davidson -------------------------------
(***************************************************************************)
(* The Davidson loop of JDSymEigsBase.h (C15) as a state machine over the   *)
(* size of the search space: setup, restart when the space exceeds its      *)
(* maximum, product update, small eigenproblem, convergence test, correction*)
(* and extension.  Parameters are adjusted exactly as initialize() does.    *)
(***************************************************************************)
EXTENDS DavidsonOps
CONSTANTS NMax, MaxIt
VARIABLES n, nev, init, maxs, corr, size, niter, info, pc
vars == <<n, nev, init, maxs, corr, size, niter, info, pc>>
Init ==
    /\ n \in 3 .. NMax /\ nev \in 1 .. NMax /\ nev <= n - 1
    \* domain of C15: initial + correction <= n; at least nev initial vectors; the maximal space leaves room for one correction
    /\ \E i0 \in 1 .. NMax + 2, m0 \in 1 .. NMax + 2 :
          /\ i0 >= nev /\ i0 + nev <= n /\ m0 >= i0 + nev
          /\ LET a == Adj(n, nev, i0, m0) IN init = a.init /\ maxs = a.maxs /\ corr = a.corr
    /\ size = 0 /\ niter = 0 /\ info = "NotComputed" /\ pc = "setup"

Par == [n |-> n, nev |-> nev, init |-> init, maxs |-> maxs, corr |-> corr]
Setup == pc = "setup" /\ size' = init /\ pc' = "top" /\ UNCHANGED <<n, nev, init, maxs, corr, niter, info>>
Top ==
    /\ pc = "top" /\ niter < MaxIt
    /\ size' = D_TopSize(size, Par)                        \* restart keeps `init` Ritz vectors
    /\ pc' = "small" /\ UNCHANGED <<n, nev, init, maxs, corr, niter, info>>
Exhausted == pc = "top" /\ niter >= MaxIt /\ pc' = "done" /\ UNCHANGED <<n, nev, init, maxs, corr, size, niter, info>>
Small ==
    /\ pc = "small"
    /\ \/ pc' = "done" /\ info' = "Successful" /\ UNCHANGED <<size, niter>>
       \/ niter = MaxIt - 1 /\ pc' = "done" /\ info' = "NotConverging" /\ UNCHANGED <<size, niter>>
       \/ niter < MaxIt - 1 /\ pc' = "top" /\ size' = D_Extend(size, Par) /\ niter' = niter + 1 /\ UNCHANGED info
    /\ UNCHANGED <<n, nev, init, maxs, corr>>
Next == Setup \/ Top \/ Exhausted \/ Small
Spec == Init /\ [][Next]_vars

\* the small eigenproblem needs at least nev Ritz pairs and a basis that fits into R^n
SpaceHoldsNev == pc = "small" => P_SpaceHoldsNev(size, Par)
SpaceFits == pc = "small" => P_SpaceFits(size, Par)
IterBounded == niter <= MaxIt
StatusDocumented == pc = "done" /\ MaxIt > 0 => info \in {"Successful", "NotConverging"}
=============================================================================
