-------------------------------- MODULE LOBPCG --------------------------------
(***************************************************************************)
(* contrib/LOBPCGSolver.h (C17): shape algebra of the iteration.  Every     *)
(* matrix is a pair <<rows, cols>>; products and concatenations carry their *)
(* conformability conditions.  The Rayleigh-Ritz problem on [X R D] has     *)
(* order k + 2 b (k + b in the first iteration), b = active block size; its *)
(* coefficient matrix is (k + 2b) x k.  V_ReturnIterate = FALSE is the      *)
(* design in which eigenvectors() returns that coefficient matrix (negative *)
(* control).                                                                *)
(***************************************************************************)
EXTENDS LOBPCGOps
CONSTANTS NMax, MaxIt, V_ReturnIterate
VARIABLES n, k, b, iter, X, coef, resid, info, pc
vars == <<n, k, b, iter, X, coef, resid, info, pc>>

Init ==
    /\ n \in 6 .. NMax /\ k \in 1 .. NMax /\ 5 * k < n
    /\ b = k /\ iter = 0 /\ X = <<n, k>> /\ coef = <<k, k>> /\ resid = <<n, k>> /\ info = "InvalidInput" /\ pc = "loop"

\* one iteration: residuals n x k, convergence test gives the new active block size, Rayleigh-Ritz of order k + b (+ b with directions)
Iterate ==
    /\ pc = "loop" /\ iter < MaxIt
    /\ \E nb \in 0 .. k :
          IF nb = 0
          THEN pc' = "done" /\ info' = "Success" /\ UNCHANGED <<b, iter, X, coef, resid>>
          ELSE /\ L_BlockOK(k, nb)
               /\ b' = nb /\ iter' = iter + 1
               /\ coef' = L_Coef(k, iter, nb)
               /\ X' = Mul(<<n, k>>, <<k, k>>)                 \* X * eVecX (+ R eVecR + D eVecD, all n x k)
               /\ resid' = <<n, k>>
               /\ UNCHANGED <<info, pc>>
    /\ UNCHANGED <<n, k>>
\* the loop ran out of iterations: the final residual test decides the status
Finish ==
    /\ pc = "loop" /\ iter >= MaxIt
    /\ \E conv \in BOOLEAN : info' = IF conv THEN "Success" ELSE info
    /\ pc' = "done" /\ UNCHANGED <<n, k, b, iter, X, coef, resid>>
Next == Iterate \/ Finish
Spec == Init /\ [][Next]_vars

Eigenvectors == IF V_ReturnIterate THEN X ELSE coef
EigenvectorsShape == pc = "done" => Eigenvectors = <<n, k>>
ResidualsShape == resid = <<n, k>>
Conformable == X # <<0, 0>>
=============================================================================
