-------------------------------- MODULE LOBPCG --------------------------------
(***************************************************************************)
(* contrib/LOBPCGSolver.h (C17): one solver object through a sequence of    *)
(* public calls - compute(), setB(), compute() again - and, inside          *)
(* compute(), the shape algebra of the iteration.                           *)
(*                                                                          *)
(* Shapes: every matrix is a pair <<rows, cols>>; products and              *)
(* concatenations carry their conformability conditions.  The Rayleigh-Ritz *)
(* problem on [X R D] has order k + 2 b (k + b in the first iteration),     *)
(* b = active block size; its coefficient matrix is (k + 2b) x k.           *)
(*                                                                          *)
(* Calls: compute() B-orthonormalises the iterate X against the B that is   *)
(* in force NOW (xB = bver), iterates, and reports a status.  The status    *)
(* must describe THIS call: Success only if this call's final residual test *)
(* passed.  setB() installs another B (bver + 1): the block X the object    *)
(* holds is no longer B-orthonormal, which only the next compute() repairs. *)
(*                                                                          *)
(* Variants (negative controls):                                            *)
(*   V_ReturnIterate = FALSE  eigenvectors() returns the coefficient matrix *)
(*   V_ResetInfo     = FALSE  compute() leaves the status of the previous   *)
(*                            call in place when it does not converge       *)
(*   V_Reorth        = FALSE  compute() skips the initial orthonormalisation*)
(*                            when the previous call succeeded ("warm start")*)
(***************************************************************************)
EXTENDS LOBPCGOps
CONSTANTS NMax, MaxIt, MaxCalls, V_ReturnIterate, V_ResetInfo, V_Reorth
VARIABLES n, k, b, iter, X, coef, resid, info, pc, calls, conv, bver, xB
vars == <<n, k, b, iter, X, coef, resid, info, pc, calls, conv, bver, xB>>

Init ==
    /\ n \in 6 .. NMax /\ k \in 1 .. NMax /\ 5 * k < n
    /\ b = k /\ iter = 0 /\ X = <<n, k>> /\ coef = <<k, k>> /\ resid = <<n, k>> /\ info = "InvalidInput" /\ pc = "idle"
    /\ calls = 0 /\ conv = FALSE /\ bver = 0 /\ xB = -1      \* xB: the version of B the block X is orthonormal against (-1: none)

\* compute(): the status of this call starts as "not converged"; X is orthonormalised against the current B
Compute ==
    /\ pc = "idle" /\ calls < MaxCalls
    /\ pc' = "loop" /\ calls' = calls + 1 /\ iter' = 0 /\ b' = k /\ conv' = FALSE
    /\ info' = IF V_ResetInfo THEN "NoConvergence" ELSE info
    /\ xB' = IF V_Reorth \/ info # "Success" THEN bver ELSE xB
    /\ UNCHANGED <<n, k, X, coef, resid, bver>>
\* setB(): between calls
SetB == pc = "idle" /\ calls < MaxCalls /\ bver < MaxCalls /\ bver' = bver + 1 /\ UNCHANGED <<n, k, b, iter, X, coef, resid, info, pc, calls, conv, xB>>

\* one iteration: residuals n x k, convergence test gives the new active block size, Rayleigh-Ritz of order k + b (+ b with directions)
Iterate ==
    /\ pc = "loop" /\ iter < MaxIt
    /\ \E nb \in 0 .. k :
          IF nb = 0
          THEN pc' = "idle" /\ info' = "Success" /\ conv' = TRUE /\ UNCHANGED <<b, iter, X, coef, resid>>
          ELSE /\ L_BlockOK(k, nb)
               /\ b' = nb /\ iter' = iter + 1
               /\ coef' = L_Coef(k, iter, nb)
               /\ X' = Mul(<<n, k>>, <<k, k>>)                 \* X * eVecX (+ R eVecR + D eVecD, all n x k)
               /\ resid' = <<n, k>>
               /\ UNCHANGED <<info, pc, conv>>
    /\ UNCHANGED <<n, k, calls, bver, xB>>
\* the loop ran out of iterations: the final residual test decides the status
Finish ==
    /\ pc = "loop" /\ iter >= MaxIt
    /\ \E c \in BOOLEAN : conv' = c /\ info' = IF c THEN "Success" ELSE info
    /\ pc' = "idle" /\ UNCHANGED <<n, k, b, iter, X, coef, resid, calls, bver, xB>>
Next == Compute \/ SetB \/ Iterate \/ Finish
Spec == Init /\ [][Next]_vars

Returned == pc = "idle" /\ calls > 0
Eigenvectors == IF V_ReturnIterate THEN X ELSE coef
EigenvectorsShape == Returned => Eigenvectors = <<n, k>>
ResidualsShape == resid = <<n, k>>
Conformable == X # <<0, 0>>
\* C17: "when the solver reports success ... residuals below tol; if it does not report success the status says so":
\* the status describes the call that just returned, whatever happened on the object before
StatusDescribesThisCall == Returned => ((info = "Success") = conv)
\* the block the iteration works on is orthonormal in the inner product of the B in force
IterateIsBOrthonormal == pc = "loop" => xB = bver
=============================================================================
