------------------------------ MODULE KrylovApa ------------------------------
(***************************************************************************)
(* Unbounded obligation for C07, discharged by Apalache (SMT): the design   *)
(* invariants of the factorization object (spec/Krylov.tla) are INDUCTIVE   *)
(* for every subspace size m >= 1 and every number of calls - TLC checks    *)
(* them for m <= 6 and <= 10 calls only.  This module is the transcription  *)
(* of Krylov.tla without the call history (a heterogeneous sequence, which  *)
(* Apalache's type system rejects); MC_Krylov checks with TLC that every    *)
(* step of Krylov.tla is a step of this module (property StepsAreApaSteps), *)
(* so the two cannot drift apart unnoticed.                                 *)
(*   Init   => IndInv                 apalache-mc check --length=0          *)
(*   IndInv /\ Next => IndInv'        apalache-mc check --init=IndInit      *)
(*                                                      --length=1          *)
(***************************************************************************)
EXTENDS Integers

VARIABLES
    \* @type: Str;
    ph,
    \* @type: Int;
    kind,
    \* @type: Int;
    m,
    \* @type: Int;
    dim,
    \* @type: Int;
    pend,
    \* @type: Int;
    cyc,
    \* @type: Int;
    ops

Init == ph = "new" /\ kind \in {1, 2} /\ m \in Int /\ m >= 1 /\ dim = 0 /\ pend = 0 /\ cyc = 0 /\ ops = 0

Same == UNCHANGED <<kind, m>>
AInit == ph' = "fact" /\ dim' = 1 /\ pend' = 0 /\ cyc' = 0 /\ ops' = ops + 2 /\ Same
\* rejected init, empty and rejected factorize_from: nothing changes
AProbe == UNCHANGED <<ph, dim, pend, cyc, ops>> /\ Same
\* (written without a bound variable so that TLC can evaluate it as a predicate on a pair of states)
AExtend ==
    /\ ph = "fact" /\ dim' \in Int /\ dim < dim' /\ dim' <= m
    /\ ops' = ops + (dim' - dim) /\ UNCHANGED <<ph, pend, cyc>> /\ Same
AShift == \E w \in {1, 2} :
    /\ (kind = 1 \/ w = 1)
    /\ (ph = "fact" /\ dim = m) \/ ph = "shift"
    /\ dim - w >= 1
    /\ ph' = "shift" /\ dim' = dim - w /\ pend' = pend + w /\ UNCHANGED <<cyc, ops>> /\ Same
ACompressV == ph = "shift" /\ ph' = "fact" /\ pend' = 0 /\ cyc' = cyc + 1 /\ UNCHANGED <<dim, ops>> /\ Same
Next == AInit \/ AProbe \/ AExtend \/ AShift \/ ACompressV

IndInv ==
    /\ ph \in {"new", "fact", "shift"} /\ kind \in {1, 2} /\ m >= 1
    /\ dim >= 0 /\ dim <= m /\ pend >= 0 /\ pend <= m /\ cyc >= 0 /\ ops >= 0
    /\ (ph # "new" => dim >= 1)                               \* P_DimInRange
    /\ (ph = "new" => dim = 0 /\ pend = 0)                    \* P_NewIsEmpty
    /\ (ph = "shift" => pend >= 1 /\ dim + pend = m)          \* P_ShiftAccount
    /\ (ph = "fact" => pend = 0)                              \* P_FactClean
    /\ (ph # "new" => ops >= 2 + (dim - 1))                   \* P_OpsLower
\* an arbitrary state that satisfies the invariant (start of the inductive step)
IndInit == ph \in {"new", "fact", "shift"} /\ kind \in {1, 2} /\ m \in Int /\ dim \in Int /\ pend \in Int /\ cyc \in Int /\ ops \in Int /\ IndInv
\* negative control: "a compress cycle never ends with a single column" is NOT inductive (refuted by Apalache)
TooStrong == IndInv /\ (ph = "fact" /\ cyc > 0 => dim >= 2)
TooStrongInit == ph \in {"new", "fact", "shift"} /\ kind \in {1, 2} /\ m \in Int /\ dim \in Int /\ pend \in Int /\ cyc \in Int /\ ops \in Int /\ TooStrong
=============================================================================
