---------------------------- MODULE SelectionRule ----------------------------
(***************************************************************************)
(* The ordering primitive of Spectra (Util/SelectionRule.h) as a RELATION:  *)
(* any permutation consistent with the key order is admissible (std::sort   *)
(* is unstable, keys may tie).  Values are exact integers / Gaussian        *)
(* integers, so every key comparison is exact.                              *)
(*   rule codes: 0 LargestMagn 1 LargestReal 2 LargestImag 3 LargestAlge    *)
(*               4 SmallestMagn 5 SmallestReal 6 SmallestImag 7 SmallestAlge*)
(*               8 BothEnds                                                 *)
(***************************************************************************)
EXTENDS Naturals, Integers, Sequences, FiniteSets, TLC

Abs(x) == IF x < 0 THEN -x ELSE x
Rules == 0 .. 8
\* rules defined for real values (argsort / symmetric solvers) and for complex values (general solvers)
DefinedReal(rule) == rule \in {0, 3, 4, 7, 8}
DefinedCplx(rule) == rule \in {0, 1, 2, 4, 5, 6}
\* the class template SortEigenvalue<T, Rule> treats BothEnds like LargestAlge (no interleaving)
Largest(rule) == rule \in {0, 1, 2, 3, 8}

\* key of value (re, im) under a rule; squared magnitude for complex values is monotone in |z|
Key(rule, cx, re, im) ==
    CASE rule \in {0, 4} -> IF cx THEN re * re + im * im ELSE Abs(re)
      [] rule \in {1, 5} -> re
      [] rule \in {2, 6} -> Abs(im)
      [] OTHER -> re            \* algebraic value (3, 7, 8)

IsPerm(res, len) ==
    /\ Len(res) = len
    /\ \A i \in 1 .. len : res[i] \in 0 .. len - 1
    /\ \A i, j \in 1 .. len : i # j => res[i] # res[j]

\* keys[i] = key of the i-th input value (1-based); res = returned 0-based index vector
Sorted(rule, res, keys) ==
    \A i \in 1 .. Len(res) - 1 :
        IF Largest(rule) THEN keys[res[i] + 1] >= keys[res[i + 1] + 1] ELSE keys[res[i] + 1] <= keys[res[i + 1] + 1]

\* BothEnds (argsort only): for EVERY k the first k positions hold the ceil(k/2) largest and floor(k/2) smallest values.
\* With ties this is a statement about the multiset of keys.
Desc(a, b) == a > b
SortedDesc(keys) == SortSeq(keys, Desc)
BothEndsPrefix(res, keys, k) ==
    LET n == Len(keys)
        sd == SortedDesc(keys)
        top == (k + 1) \div 2
        bot == k \div 2
        want == SortedDesc(SubSeq(sd, 1, top) \o SubSeq(sd, n - bot + 1, n))
        got == SortedDesc([i \in 1 .. k |-> keys[res[i] + 1]])
    IN want = got
BothEnds(res, keys) == \A k \in 1 .. Len(keys) : BothEndsPrefix(res, keys, k)

\* the specification is not vacuous: some permutation satisfies it for every key vector (checked by TLC on small domains)
ExistsSorted(rule, keys) ==
    LET n == Len(keys) IN
    \E p \in [1 .. n -> 0 .. n - 1] :
        LET res == [i \in 1 .. n |-> p[i]] IN
        IsPerm(res, n) /\ (IF rule = 8 THEN BothEnds(res, keys) ELSE Sorted(rule, res, keys))
=============================================================================
