----------------------------- MODULE IRSolver -----------------------------
(***************************************************************************)
(* One implicitly restarted Arnoldi/Lanczos solver object of yixuan/spectra *)
(* (HermEigsBase.h / GenEigsBase.h on top of LinAlg/Arnoldi.h, Lanczos.h),  *)
(* at the granularity of the guarded hook events: one action per code block *)
(* that applies the operator or writes a member.                            *)
(*                                                                          *)
(* The solver state is ONE record s.  Every action X is a pair              *)
(*     G_X(s, args)   guard: control point + the argument relations the     *)
(*                    code guarantees                                       *)
(*     U_X(s, args)   the successor record                                  *)
(* and  X == \E args : G_X(s, args) /\ s' = U_X(s, args).                   *)
(* The design configurations (spec/mc/IR_*.cfg) explore Next exhaustively   *)
(* for small constants; TraceIR.tla replays recorded executions of the real *)
(* code through the SAME U_X functions and records a failed G_X as a        *)
(* monitor hit instead of blocking, and evaluates the invariants below on   *)
(* every state of every recorded execution.                                 *)
(***************************************************************************)
EXTENDS Naturals, Integers, Sequences, FiniteSets, TLC

CONSTANTS
    \* @type: Set({ gen: Bool, nev: Int, ncv: Int });
    Configs,    \* design configs: set of [gen |-> BOOLEAN, nev |-> Nat, ncv |-> Nat]
    \* @type: Set(Int);
    MaxIt,      \* design configs: set of maxit values compute() may be called with
    \* @type: Int;
    MaxCalls,   \* design configs: bound on the number of public calls in a history
    \* @type: Bool;
    V_Refresh,  \* code variant: flags recomputed after the last restart when maxit is exhausted
    \* @type: Bool;
    V_Resume,   \* code variant: compute() continues from the current dimension instead of from 1
    \* @type: Bool;
    V_Faults,   \* design configs: the user's operator may throw
    \* @type: Bool;
    V_InitCheckFirst \* code variant: Arnoldi::init validates the start vector before it writes anything

VARIABLE
    \* @type: $irs;
    s

Min(a, b) == IF a < b THEN a ELSE b
Max(a, b) == IF a > b THEN a ELSE b

PCs == {"idle",        \* outside any public call
        "init",        \* InitBegin seen: members reset, Arnoldi::init running
        "c_fac",       \* compute(): factorize_from about to run (initial, or after compress_V)
        "c_retr",      \* compute(): retrieve_ritzpair about to run
        "c_test",      \* compute(): top of the restart loop (or just after it)
        "c_adj",       \* compute(): num_converged done inside the loop, nconv < nev
        "c_rst",       \* nev_adjusted done, restart() about to start
        "c_shift",     \* restart(): inside the shift loop
        "c_rend",      \* restart(): retrieve done, RestartEnd pending
        "c_sort",      \* compute(): sort_ritzpair about to run
        "c_sorting",   \* inside sort_ritzpair
        "c_end"}       \* compute(): about to return

\* A freshly constructed object
\* (the type annotations in comments are for Apalache, see IRSolverApa.tla; TLC and SANY ignore them)
\* @typeAlias: irs = { gen: Bool, nev: Int, ncv: Int, pc: Str, k: Int, fnext: Int, fto: Int, ops: Int, niter: Int, info: Str, flags: Int, nconv: Int, restarts: Int, maxit: Int, ktarget: Int, spos: Int, trueOps: Int, ops0: Int, ritzGen: Int, convGen: Int, facOK: Bool, facpre: Bool, misuse: Bool, inited: Bool, ncomp: Int, probing: Bool, calls: Int, exc: Str };
\* @type: ({ gen: Bool, nev: Int, ncv: Int }) => $irs;
Fresh(cfg) ==
    [gen |-> cfg.gen, nev |-> cfg.nev, ncv |-> cfg.ncv,
     pc |-> "idle",
     k |-> 0,          \* m_fac.m_k, advertised dimension of the factorization (0 = never initialised)
     fnext |-> 0,      \* inside factorize_from: the column the next FacStep must produce (0 = outside)
     fto |-> 0,        \* inside factorize_from: target dimension
     ops |-> 0,        \* m_nmatop
     niter |-> 0,      \* m_niter
     info |-> "NotComputed",
     flags |-> 0,      \* number of set convergence flags
     nconv |-> 0,      \* local nconv of compute()
     restarts |-> 0,   \* restarts performed since ComputeBegin
     maxit |-> 0,      \* argument of the running compute()
     ktarget |-> 0,    \* from_k of the next factorize_from (restart size chosen by nev_adjusted)
     spos |-> 0,       \* shift loop: next Ritz position to be used as a shift (0 = not restarting)
     \* ---- ghost fields (exist only in the specification) ----
     trueOps |-> 0,    \* operator applications actually performed since the last init
     ops0 |-> 0,       \* trueOps at the last ComputeBegin
     ritzGen |-> 0,    \* bumped by every retrieve_ritzpair (0 = no Ritz pairs since init)
     convGen |-> 0,    \* ritzGen at the time of the last num_converged
     facOK |-> FALSE,  \* the factorization is a Krylov factorization BY CONSTRUCTION
     facpre |-> FALSE, \* facOK when the running init() was entered
     misuse |-> FALSE, \* compute() was started although the previous call threw and left no valid
                       \* factorization behind (outside the domain of every property: the caller was told)
     inited |-> FALSE, \* a successful init() has completed and no fault hit the object since
     ncomp |-> 0,      \* compute() calls started since the last init()
     probing |-> FALSE, \* complex-shift solver only: inside the post-processing that applies the operator at a probe shift
     calls |-> 0,
     exc |-> "none"]   \* exception delivered to the caller by the last call: none | invalid | fault

(***************************************************************************)
(* Restart size: the RELATION the properties need, not the ARPACK formula:  *)
(* 1 <= k <= ncv - 1 for both families.  NevAdjust.tla transcribes the two  *)
(* formulas and checks that they satisfy the relation for all arguments.    *)
(***************************************************************************)
\* @type: ($irs) => Set(Int);
KRange(st) == 1 .. (st.ncv - 1)
ShiftWidth(kind) == IF kind = 2 THEN 2 ELSE 1

(************************** init() *****************************************)
\* InitBegin: Ritz data and counters are reset BEFORE Arnoldi::init can throw.  Arnoldi::init
\* then either validates v0 first (V_InitCheckFirst: a rejected init leaves the factorization
\* as it was) or zeroes H before the check (the factorization is destroyed even if init throws).
\* facpre remembers whether the factorization was valid when init() was entered.
\* @type: ($irs) => Bool;
G_InitBegin(st) == st.pc = "idle"
\* @type: ($irs) => $irs;
U_InitBegin(st) ==
    [st EXCEPT !.pc = "init", !.ops = 0, !.niter = 0, !.flags = 0, !.trueOps = 0, !.ops0 = 0,
               !.ritzGen = 0, !.convGen = 0, !.calls = st.calls + 1, !.exc = "none",
               !.facpre = st.facOK, !.facOK = FALSE, !.inited = FALSE, !.misuse = FALSE, !.ncomp = 0]

\* Arnoldi::init rejects a zero vector before it touches m_k (H, V, f are already resized)
\* @type: ($irs) => Bool;
G_InitThrowZero(st) == st.pc = "init"
\* @type: ($irs) => $irs;
U_InitThrowZero(st) == [st EXCEPT !.pc = "idle", !.exc = "invalid",
                                  !.facOK = IF V_InitCheckFirst THEN st.facpre ELSE FALSE]

\* FacInit: two applications (A v0, A v), step-1 factorization
\* @type: ($irs, Int, Int) => Bool;
G_FacInit(st, kk, o) == st.pc = "init" /\ ~st.facOK /\ kk = 1 /\ o = st.ops + 2
\* @type: ($irs, Int, Int) => $irs;
U_FacInit(st, kk, o) ==
    [st EXCEPT !.k = kk, !.ops = o, !.trueOps = st.trueOps + 2, !.facOK = TRUE, !.fnext = 0, !.fto = 0]

\* @type: ($irs, Int) => Bool;
G_InitEnd(st, o) == st.pc = "init" /\ st.k = 1 /\ st.facOK /\ o = st.ops
\* @type: ($irs, Int) => $irs;
U_InitEnd(st, o) == [st EXCEPT !.pc = "idle", !.inited = TRUE]

(************************** compute() **************************************)
\* @type: ($irs, Int) => Bool;
G_ComputeBegin(st, mx) == st.pc = "idle"
\* @type: ($irs, Int) => $irs;
U_ComputeBegin(st, mx) ==
    [st EXCEPT !.pc = "c_fac", !.maxit = mx, !.restarts = 0, !.nconv = 0, !.spos = 0,
               !.calls = st.calls + 1, !.exc = "none", !.ops0 = st.trueOps, !.ncomp = st.ncomp + 1,
               !.misuse = (st.misuse \/ (st.exc # "none" /\ ~st.facOK)),
               !.ktarget = IF V_Resume THEN Max(1, st.k) ELSE 1]

\* factorize_from(from, to) with to <= from: nothing to do
\* @type: ($irs, Int, Int, Int) => Bool;
G_FacNoop(st, from, to, kk) ==
    st.pc = "c_fac" /\ st.fnext = 0 /\ from = st.ktarget /\ to = st.ncv /\ to <= from /\ kk = st.k /\ st.k = st.ncv
\* @type: ($irs, Int, Int, Int) => $irs;
U_FacNoop(st, from, to, kk) == [st EXCEPT !.pc = "c_retr"]

\* factorize_from(from, to) with from > m_k: invalid_argument (compute() without init())
\* @type: ($irs, Int, Int, Int) => Bool;
G_FacThrow(st, from, to, kk) ==
    st.pc = "c_fac" /\ st.fnext = 0 /\ from = st.ktarget /\ to = st.ncv /\ from > st.k /\ kk = st.k
\* @type: ($irs, Int, Int, Int) => $irs;
U_FacThrow(st, from, to, kk) == [st EXCEPT !.pc = "idle", !.exc = "invalid"]

\* FacBegin: H is truncated to its leading from x from block.  The result is a Krylov
\* factorization by construction only if it extends the CURRENT dimension (from = k):
\* with from < k the residual f still belongs to the step-k factorization.
\* @type: ($irs, Int, Int, Int, Int) => Bool;
G_FacBegin(st, from, to, kk, o) ==
    /\ st.pc = "c_fac" /\ st.fnext = 0 /\ from = st.ktarget /\ to = st.ncv
    /\ from < to /\ from <= st.k /\ from >= 1 /\ kk = st.k /\ o = st.ops
\* @type: ($irs, Int, Int, Int, Int) => $irs;
U_FacBegin(st, from, to, kk, o) ==
    [st EXCEPT !.fnext = from + 1, !.fto = to, !.facOK = (st.facOK /\ from = st.k)]

\* One Arnoldi/Lanczos step producing column i; rs = breakdown restart (expand_basis: one more application)
StepCost(rs) == IF rs THEN 2 ELSE 1
\* @type: ($irs, Int, Bool, Int) => Bool;
G_FacStep(st, i, rs, o) == st.fnext # 0 /\ i = st.fnext /\ i <= st.fto /\ o = st.ops + StepCost(rs)
\* @type: ($irs, Int, Bool, Int) => $irs;
U_FacStep(st, i, rs, o) ==
    [st EXCEPT !.fnext = i + 1, !.ops = o, !.trueOps = st.trueOps + StepCost(rs)]

\* @type: ($irs, Int, Int, Int) => Bool;
G_FacDone(st, to, kk, o) == st.fnext # 0 /\ st.fnext = st.fto + 1 /\ to = st.fto /\ kk = to /\ o = st.ops
\* @type: ($irs, Int, Int, Int) => $irs;
U_FacDone(st, to, kk, o) == [st EXCEPT !.k = kk, !.fnext = 0, !.fto = 0, !.pc = "c_retr"]

\* retrieve_ritzpair: new Ritz pairs from the current H (needs the full step-ncv factorization)
\* @type: ($irs) => Bool;
G_Retrieve(st) == st.pc = "c_retr" /\ st.k = st.ncv
\* @type: ($irs) => $irs;
U_Retrieve(st) ==
    [st EXCEPT !.ritzGen = st.ritzGen + 1, !.pc = IF st.spos = 0 THEN "c_test" ELSE "c_rend"]

\* an unsupported selection rule makes retrieve_ritzpair throw invalid_argument
\* @type: ($irs) => Bool;
G_RetrieveThrow(st) == st.pc = "c_retr"
\* @type: ($irs) => $irs;
U_RetrieveThrow(st) == [st EXCEPT !.pc = "idle", !.exc = "invalid"]

\* @type: ($irs, Int) => Bool;
G_RestartEnd(st, kk) == st.pc = "c_rend" /\ kk = st.ktarget
\* @type: ($irs, Int) => $irs;
U_RestartEnd(st, kk) == [st EXCEPT !.pc = "c_test", !.restarts = st.restarts + 1, !.spos = 0]

\* num_converged: c flags set.  Inside the loop (restarts < maxit) or, in the V_Refresh variant,
\* once more after the loop ran out of iterations.
\* @type: ($irs) => Bool;
LoopRunning(st) == st.restarts < st.maxit
\* @type: ($irs, Int) => Bool;
G_NumConv(st, c) == st.pc = "c_test" /\ c \in 0 .. st.nev /\ (LoopRunning(st) \/ V_Refresh)
\* @type: ($irs, Int) => $irs;
U_NumConv(st, c) ==
    [st EXCEPT !.flags = c, !.nconv = c, !.convGen = st.ritzGen,
               !.pc = IF ~LoopRunning(st) \/ c >= st.nev THEN "c_sort" ELSE "c_adj"]

\* loop exhausted and the code does NOT refresh the flags (the design before the fix)
\* @type: ($irs) => Bool;
G_SkipRefresh(st) == st.pc = "c_test" /\ ~LoopRunning(st) /\ ~V_Refresh
\* @type: ($irs) => $irs;
U_SkipRefresh(st) == [st EXCEPT !.pc = "c_sort"]

\* @type: ($irs, Int, Int) => Bool;
G_NevAdj(st, nc, kk) == st.pc = "c_adj" /\ nc = st.nconv /\ kk \in KRange(st)
\* @type: ($irs, Int, Int) => $irs;
U_NevAdj(st, nc, kk) == [st EXCEPT !.ktarget = kk, !.pc = "c_rst"]

\* @type: ($irs, Int) => Bool;
G_RestartBegin(st, kk) == st.pc = "c_rst" /\ kk = st.ktarget /\ kk < st.ncv
\* @type: ($irs, Int) => $irs;
U_RestartBegin(st, kk) == [st EXCEPT !.pc = "c_shift", !.spos = kk]

\* One implicit shift: kind 1 (single; the tridiagonal class of the Lanczos variant is logged as 3)
\* lowers the dimension by one and consumes one Ritz position, kind 2 (double) by two, and needs
\* position spos+1 to exist.
\* @type: ($irs, Int, Int) => Bool;
G_CompressH(st, kind, kk) ==
    /\ st.pc = "c_shift" /\ st.spos < st.ncv
    /\ kind \in (IF st.gen THEN {1, 2} ELSE {3})
    /\ st.spos + ShiftWidth(kind) <= st.ncv
    /\ kk = st.k - ShiftWidth(kind) /\ kk >= 1
\* @type: ($irs, Int, Int) => $irs;
U_CompressH(st, kind, kk) == [st EXCEPT !.k = kk]

\* Shift(i, kind): the hook at the end of the loop body; i = Ritz position that was used
\* @type: ($irs, Int, Int) => Bool;
G_Shift(st, i, kind) == st.pc = "c_shift" /\ i = st.spos /\ i + ShiftWidth(kind) <= st.ncv
\* @type: ($irs, Int, Int) => $irs;
U_Shift(st, i, kind) == [st EXCEPT !.spos = i + ShiftWidth(kind)]

\* compress_V: V <- V Q, new residual; the dimension must have come down to exactly ktarget
\* @type: ($irs, Int) => Bool;
G_CompressV(st, kk) == st.pc = "c_shift" /\ st.spos = st.ncv /\ kk = st.k /\ kk = st.ktarget
\* @type: ($irs, Int) => $irs;
U_CompressV(st, kk) == [st EXCEPT !.pc = "c_fac"]

\* sort_ritzpair (an unsupported sorting rule throws before or inside it)
\* @type: ($irs) => Bool;
G_SortBegin(st) == st.pc = "c_sort" /\ ~st.probing
\* @type: ($irs) => $irs;
U_SortBegin(st) == [st EXCEPT !.pc = "c_sorting"]
\* @type: ($irs) => Bool;
G_SortEnd(st) == st.pc = "c_sorting"
\* @type: ($irs) => $irs;
U_SortEnd(st) == [st EXCEPT !.pc = "c_end"]
\* @type: ($irs) => Bool;
G_SortThrow(st) == st.pc \in {"c_sort", "c_sorting"}
\* @type: ($irs) => $irs;
U_SortThrow(st) == [st EXCEPT !.pc = "idle", !.exc = "invalid"]

\* return: m_niter += i + 1 where i = restarts performed (loop index at exit)
\* @type: ($irs) => Str;
InfoOf(st) == IF st.nconv >= st.nev THEN "Successful" ELSE "NotConverging"
\* @type: ($irs, Int, Str, Int, Int) => Bool;
G_ComputeEnd(st, r, inf, ni, o) ==
    /\ st.pc = "c_end"
    /\ r = Min(st.nev, st.nconv) /\ o = st.ops /\ inf = InfoOf(st)
    /\ ni = st.niter + st.restarts + 1
\* @type: ($irs, Int, Str, Int, Int) => $irs;
U_ComputeEnd(st, r, inf, ni, o) == [st EXCEPT !.pc = "idle", !.info = inf, !.niter = ni]

\* The user's operator throws: possible wherever the next event applies the operator.
\* The exception unwinds to the caller; members keep whatever was written so far.
\* (in the generalized modes compress_V also applies the user's B operator: the B-norm of the new residual, at the end of the shift loop)
\* @type: ($irs) => Bool;
G_OpThrows(st) == (st.pc = "init" /\ ~st.facOK) \/ st.fnext # 0 \/ st.probing \/ (st.pc = "c_shift" /\ st.spos = st.ncv)
\* @type: ($irs) => $irs;
U_OpThrows(st) ==
    [st EXCEPT !.pc = "idle", !.exc = "fault", !.fnext = 0, !.fto = 0, !.facOK = FALSE, !.inited = FALSE, !.probing = FALSE]

\* GenEigsComplexShiftSolver::sort_ritzpair: 2*nev solves at a probe shift between the restart loop and the final sort
\* @type: ($irs) => Bool;
G_ProbeBegin(st) == st.pc = "c_sort" /\ ~st.probing
\* @type: ($irs) => $irs;
U_ProbeBegin(st) == [st EXCEPT !.probing = TRUE]
\* @type: ($irs) => Bool;
G_ProbeStep(st) == st.pc = "c_sort" /\ st.probing
\* @type: ($irs) => Bool;
G_ProbeEnd(st) == st.pc = "c_sort" /\ st.probing
\* @type: ($irs) => $irs;
U_ProbeEnd(st) == [st EXCEPT !.probing = FALSE]

(***************************************************************************)
(* Design-level next-state relation: all arguments chosen nondeterministically *)
(***************************************************************************)
Init == \E cfg \in Configs : s = Fresh(cfg)

InitBegin == G_InitBegin(s) /\ s' = U_InitBegin(s)
InitThrowZero == G_InitThrowZero(s) /\ s' = U_InitThrowZero(s)
FacInit == G_FacInit(s, 1, s.ops + 2) /\ s' = U_FacInit(s, 1, s.ops + 2)
InitEnd == G_InitEnd(s, s.ops) /\ s' = U_InitEnd(s, s.ops)
ComputeBegin == \E mx \in MaxIt : G_ComputeBegin(s, mx) /\ s' = U_ComputeBegin(s, mx)
FacNoop == G_FacNoop(s, s.ktarget, s.ncv, s.k) /\ s' = U_FacNoop(s, s.ktarget, s.ncv, s.k)
FacThrow == G_FacThrow(s, s.ktarget, s.ncv, s.k) /\ s' = U_FacThrow(s, s.ktarget, s.ncv, s.k)
FacBegin == G_FacBegin(s, s.ktarget, s.ncv, s.k, s.ops) /\ s' = U_FacBegin(s, s.ktarget, s.ncv, s.k, s.ops)
FacStep == \E rs \in BOOLEAN :
               G_FacStep(s, s.fnext, rs, s.ops + StepCost(rs)) /\ s' = U_FacStep(s, s.fnext, rs, s.ops + StepCost(rs))
FacDone == G_FacDone(s, s.fto, s.fto, s.ops) /\ s' = U_FacDone(s, s.fto, s.fto, s.ops)
Retrieve == G_Retrieve(s) /\ s' = U_Retrieve(s)
RestartEnd == G_RestartEnd(s, s.ktarget) /\ s' = U_RestartEnd(s, s.ktarget)
NumConv == \E c \in 0 .. s.nev : G_NumConv(s, c) /\ s' = U_NumConv(s, c)
SkipRefresh == G_SkipRefresh(s) /\ s' = U_SkipRefresh(s)
NevAdj == \E kk \in KRange(s) : G_NevAdj(s, s.nconv, kk) /\ s' = U_NevAdj(s, s.nconv, kk)
RestartBegin == G_RestartBegin(s, s.ktarget) /\ s' = U_RestartBegin(s, s.ktarget)
\* CompressH immediately followed by its Shift hook: one design step.  The shift loop runs while
\* spos < ncv; the code chooses single/double from the Ritz values (any choice that fits is explored,
\* but the dimension may not fall below ktarget: that is what nev_adjusted's pair rule guarantees,
\* see GenRestart.tla for the token-level model).
ShiftStep == \E kind \in {1, 2, 3} :
                 LET kk == s.k - ShiftWidth(kind) IN
                 /\ G_CompressH(s, kind, kk) /\ kk >= s.ktarget
                 /\ s' = U_Shift(U_CompressH(s, kind, kk), s.spos, kind)
CompressV == G_CompressV(s, s.k) /\ s' = U_CompressV(s, s.k)
SortBegin == G_SortBegin(s) /\ s' = U_SortBegin(s)
SortEnd == G_SortEnd(s) /\ s' = U_SortEnd(s)
ComputeEnd == LET r == Min(s.nev, s.nconv) ni == s.niter + s.restarts + 1 IN
                  G_ComputeEnd(s, r, InfoOf(s), ni, s.ops) /\ s' = U_ComputeEnd(s, r, InfoOf(s), ni, s.ops)
OpThrows == V_Faults /\ G_OpThrows(s) /\ s' = U_OpThrows(s)
\* compute() called with a selection / sorting rule the solver does not support
RetrieveThrow == V_Faults /\ G_RetrieveThrow(s) /\ s' = U_RetrieveThrow(s)
SortThrow == V_Faults /\ G_SortThrow(s) /\ s' = U_SortThrow(s)
\* init(0): only when nothing else of init has run
InitZero == G_InitThrowZero(s) /\ ~s.facOK /\ s' = U_InitThrowZero(s)

SolverStep ==
    \/ InitZero \/ FacInit \/ InitEnd
    \/ FacNoop \/ FacThrow \/ FacBegin \/ FacStep \/ FacDone \/ Retrieve \/ RestartEnd
    \/ NumConv \/ SkipRefresh \/ NevAdj \/ RestartBegin \/ ShiftStep \/ CompressV
    \/ SortBegin \/ SortEnd \/ ComputeEnd \/ OpThrows \/ RetrieveThrow \/ SortThrow

UserStep == s.calls < MaxCalls /\ (InitBegin \/ ComputeBegin)

Next == SolverStep \/ UserStep

Spec == Init /\ [][Next]_s
FairSpec == Spec /\ WF_s(SolverStep)

(***************************************************************************)
(* Properties (predicates over a state record, so that TraceIR can evaluate *)
(* them on every state of a recorded execution as well)                     *)
(***************************************************************************)
\* @type: ($irs) => Bool;
TypeOKs(st) ==
    /\ st.pc \in PCs /\ st.k \in 0 .. st.ncv /\ st.fnext \in 0 .. st.ncv + 1 /\ st.fto \in 0 .. st.ncv
    /\ st.flags \in 0 .. st.nev /\ st.nconv \in 0 .. st.nev
    /\ st.info \in {"NotComputed", "Successful", "NotConverging"}
    /\ st.exc \in {"none", "invalid", "fault"}

\* C01/C02: whatever is handed back as converged was tested on the Ritz pairs that are returned,
\* and those come from a factorization that is valid by construction
\* @type: ($irs) => Bool;
P_ReturnedAreFresh(st) == (st.pc = "c_end" /\ st.flags > 0 /\ ~st.misuse) => (st.convGen = st.ritzGen /\ st.facOK)
\* C05
\* @type: ($irs) => Bool;
P_CountsAgree(st) ==
    /\ st.flags <= st.nev
    /\ (st.pc = "c_end" => st.nconv = st.flags)
    /\ (st.ritzGen = 0 /\ st.pc \in {"idle", "init"} /\ st.exc # "fault" => st.flags = 0 \/ ~st.inited)
\* @type: ($irs) => Bool;
P_OpsCounted(st) == st.ops = st.trueOps
\* @type: ($irs) => Bool;
P_RestartsBounded(st) == st.restarts <= st.maxit
\* C13: work bound per compute(): 2*ncv*(maxit+1) applications (2 more for init), dimension in range
\* @type: ($irs) => Bool;
P_WorkBound(st) == (st.pc \notin {"idle", "init"}) => st.trueOps - st.ops0 <= 2 * st.ncv * (st.maxit + 1)
\* @type: ($irs) => Bool;
P_KInRange(st) == (st.pc \notin {"idle", "init"} /\ st.facOK) => (st.k >= 1 /\ st.k <= st.ncv)
\* @type: ($irs) => Bool;
P_ShiftInRange(st) == st.pc = "c_shift" => (st.spos >= 1 /\ st.spos <= st.ncv /\ st.k >= st.ktarget /\ st.k >= 1)
\* C06/C14: a successful init() leaves exactly the state a fresh object has after init()
\* @type: ($irs) => Bool;
P_InitMakesFresh(st) ==
    (st.pc = "idle" /\ st.inited /\ st.ncomp = 0) =>
        (st.k = 1 /\ st.ops = 2 /\ st.niter = 0 /\ st.flags = 0 /\ st.trueOps = 2 /\ st.facOK /\ st.fnext = 0)
\* a compute() that follows a successful init() never hits the from_k guard
\* @type: ($irs) => Bool;
P_NoFacThrowAfterInit(st) == (st.pc = "c_fac" /\ st.inited) => st.ktarget <= st.k

TypeOK == TypeOKs(s)
ReturnedAreFresh == P_ReturnedAreFresh(s)
CountsAgree == P_CountsAgree(s)
OpsCounted == P_OpsCounted(s)
RestartsBounded == P_RestartsBounded(s)
WorkBound == P_WorkBound(s)
KInRange == P_KInRange(s)
ShiftInRange == P_ShiftInRange(s)
InitMakesFresh == P_InitMakesFresh(s)
NoFacThrowAfterInit == P_NoFacThrowAfterInit(s)

\* C13 liveness: every started call returns or throws
Terminates == (s.pc # "idle") ~> (s.pc = "idle")
=============================================================================
