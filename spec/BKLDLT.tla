-------------------------------- MODULE BKLDLT --------------------------------
(***************************************************************************)
(* Bunch-Kaufman LDLT (LinAlg/BKLDLT.h): status protocol, exact             *)
(* nonsingularity oracle for small integer matrices, acceptance formula of  *)
(* the measured residual, agreement of the four storage variants (C10).     *)
(***************************************************************************)
EXTENDS Naturals, Integers, Sequences, FiniteSets, TraceLib

\* CompInfo codes: 0 Successful, 1 NotComputed, 2 NotConverging, 3 NumericalIssue
SUCCESS == 0
NUMISSUE == 3

\* ---- the object's status protocol as a state machine (design config MC_BK) -------------------------------
\* computed: compute() has completed; info: last status; a solve is legal iff computed
ProtoInit(st) == st = [computed |-> FALSE, info |-> 1]
ProtoCompute(st, singularPivot) == [computed |-> TRUE, info |-> IF singularPivot THEN NUMISSUE ELSE SUCCESS]
SolveOutcome(st) == IF st.computed THEN "result" ELSE "logic_error"
\* the dense shift-solve wrappers turn a reported problem into an exception
WrapperThrows(st) == st.info # SUCCESS

\* ---- exact determinant of a symmetric integer matrix given by its lower triangle, column by column --------
\* ent = <<a11, a21, .., an1, a22, a32, .., ann>>; sig subtracted from the diagonal
Off(n, j) == IF j = 1 THEN 0 ELSE (j - 1) * n - ((j - 1) * (j - 2)) \div 2      \* entries before column j
Ent(n, ent, i, j) == IF i >= j THEN ent[Off(n, j) + (i - j) + 1] ELSE ent[Off(n, i) + (j - i) + 1]
Mat(n, ent, sig) == [i \in 1 .. n |-> [j \in 1 .. n |-> Ent(n, ent, i, j) - (IF i = j THEN sig ELSE 0)]]
Minor(M, n, r, c) == [i \in 1 .. n - 1 |-> [j \in 1 .. n - 1 |-> M[IF i < r THEN i ELSE i + 1][IF j < c THEN j ELSE j + 1]]]
RECURSIVE Det(_, _)
Det(M, n) ==
    IF n = 1 THEN M[1][1]
    ELSE IF n = 2 THEN M[1][1] * M[2][2] - M[1][2] * M[2][1]
    ELSE LET term(c) == (IF c % 2 = 1 THEN 1 ELSE -1) * M[1][c] * Det(Minor(M, n, 1, c), n - 1)
         IN IF n = 3 THEN term(1) + term(2) + term(3) ELSE term(1) + term(2) + term(3) + term(4)
OrderOf(len) == CASE len = 1 -> 1 [] len = 3 -> 2 [] len = 6 -> 3 [] OTHER -> 4

\* ---- acceptance: ||(A - sigma I) x - b|| <= c n eps (||A - sigma I|| ||x|| + ||b||) ----------------------
QC_BK == 160
ResidualOK(ty, qn, qres, qscale) == QLe(qres, QC_BK + qn + QEPS(ty) + qscale)
=============================================================================
