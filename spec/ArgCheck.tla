------------------------------- MODULE ArgCheck -------------------------------
(***************************************************************************)
(* Documented argument ranges of the solver constructors, init() and        *)
(* compute(), and the required outcome of a call: accepted, or rejected     *)
(* with std::invalid_argument leaving nothing behind (C12).                 *)
(***************************************************************************)
EXTENDS Naturals, Integers

\* fam 0: symmetric / Hermitian family (HermEigsBase): 1 <= nev <= n-1, nev < ncv <= n
\* fam 1: general family (GenEigsBase):                1 <= nev <= n-2, nev+2 <= ncv <= n
\* fam 2: Davidson (JDSymEigsBase):                    1 <= nev <= n-1   (ncv is not an argument)
CtorOK(fam, n, nev, ncv) ==
    CASE fam = 0 -> nev >= 1 /\ nev <= n - 1 /\ ncv > nev /\ ncv <= n
      [] fam = 1 -> nev >= 1 /\ nev <= n - 2 /\ ncv >= nev + 2 /\ ncv <= n
      [] OTHER -> nev >= 1 /\ nev <= n - 1

Min(a, b) == IF a < b THEN a ELSE b
\* partial SVD of an m x n matrix: a symmetric problem of size min(m, n)
SvdOK(m, n, ncomp, ncv) == CtorOK(0, Min(m, n), ncomp, ncv)

\* wrappers that need a square matrix
ShapeOK(r, c) == r = c

\* selection / sorting rules each family supports (SortRule codes 0..8)
RuleOK(gen, role, rule) ==
    IF gen = 1 THEN rule \in {0, 1, 2, 4, 5, 6}
    ELSE IF role = 0 THEN rule \in {0, 3, 4, 7, 8} ELSE rule \in {0, 3, 4, 7}

ACCEPT == 0
INVALID == 1
\* required outcome of a call given whether its arguments are valid
Required(valid) == IF valid THEN ACCEPT ELSE INVALID
=============================================================================
