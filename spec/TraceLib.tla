------------------------------ MODULE TraceLib ------------------------------
(***************************************************************************)
(* Operators shared by the trace specifications: the log2-quantised         *)
(* magnitude scale (q(x) = round(16*log2 x), produced by the harness, which *)
(* only MEASURES) and the acceptance formulas built on it (which only the   *)
(* specification evaluates), plus ordering predicates on integer keys.      *)
(***************************************************************************)
EXTENDS Naturals, Integers, Sequences, FiniteSets

QZERO == -32768      \* the measured quantity is exactly zero
QNAN  == 32767       \* NaN or infinity: fails every upper bound below

QMax(a, b) == IF a > b THEN a ELSE b
QMin(a, b) == IF a < b THEN a ELSE b

\* scalar type codes written by the harness: 1 float, 2 double, 3 long double (+10: complex)
RealTy(ty) == IF ty > 10 THEN ty - 10 ELSE ty
QEPS(ty)   == CASE RealTy(ty) = 1 -> -368 [] RealTy(ty) = 2 -> -832 [] OTHER -> -1008      \* 16*log2(eps)
QEPS23(ty) == CASE RealTy(ty) = 1 -> -245 [] RealTy(ty) = 2 -> -555 [] OTHER -> -672       \* eps^(2/3)
QEPS12(ty) == CASE RealTy(ty) = 1 -> -184 [] RealTy(ty) = 2 -> -416 [] OTHER -> -504       \* sqrt(eps)

\* a + b <= 2 max(a, b): one bit (16 units) of slack turns a sum of bounds into a max
SumBound(a, b) == QMax(a, b) + 16

\* x <= bound on the q scale; exact zero always passes, NaN never
QLe(x, bound) == x = QZERO \/ (x # QNAN /\ x <= bound)

\* ---------------------------------------------------------------- ordering on integer keys
\* SortRule codes of Spectra: 0 LargestMagn 1 LargestReal 2 LargestImag 3 LargestAlge
\*                            4 SmallestMagn 5 SmallestReal 6 SmallestImag 7 SmallestAlge 8 BothEnds
IsLargest(rule) == rule \in {0, 1, 2, 3}
NonIncreasing(seq) == \A i \in 1 .. Len(seq) - 1 : seq[i] >= seq[i + 1]
NonDecreasing(seq) == \A i \in 1 .. Len(seq) - 1 : seq[i] <= seq[i + 1]
OrderedKeys(rule, keys) == IF IsLargest(rule) THEN NonIncreasing(keys) ELSE NonDecreasing(keys)

\* 16 * ceil(log2 n) for n >= 1: an upper bound of q(n) computed in integers
RECURSIVE Log2Up(_)
Log2Up(n) == IF n <= 1 THEN 0 ELSE 1 + Log2Up((n + 1) \div 2)
QLog2Up(n) == 16 * Log2Up(n)

IsPrefixSeq(a, b) == Len(a) <= Len(b) /\ \A i \in 1 .. Len(a) : a[i] = b[i]
MinI(a, b) == IF a < b THEN a ELSE b
=============================================================================
