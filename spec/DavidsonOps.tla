----------------------------- MODULE DavidsonOps -----------------------------
(***************************************************************************)
(* Search-space bookkeeping of JDSymEigsBase.h as operators without         *)
(* variables, shared by the design model Davidson.tla and by TraceAux,      *)
(* which replays the JDIter hook events of real runs through them.          *)
(***************************************************************************)
EXTENDS Naturals, Integers, FiniteSets

\* constructor (nev, nvec_init, nvec_max) followed by initialize(): values actually used
Adj(nn, k, i0, m0) ==
    LET m1 == IF m0 < nn THEN m0 ELSE 10 * k
        i1 == IF i0 < nn THEN i0 ELSE 2 * k
        m2 == IF nn < m1 THEN nn ELSE m1
        small == nn < i1 + k
    IN [maxs |-> m2, init |-> IF small THEN nn \div 3 ELSE i1, corr |-> IF small THEN nn \div 3 ELSE k]

\* ---- the bookkeeping as operators on a parameter record p = [n, nev, init, maxs, corr] (shared with TraceAux, which replays the
\* JDIter hook events of real runs through them) ---------------------------------------------------------------------------
\* c0 > 0: set_correction_size(c0) was called after construction
D_Params(nn, k, i0, m0, c0) ==
    LET a == Adj(nn, k, i0, m0) IN [n |-> nn, nev |-> k, init |-> a.init, maxs |-> a.maxs, corr |-> IF c0 > 0 THEN c0 ELSE a.corr]
\* top of an iteration: the space is cut back to `init` Ritz vectors when it has outgrown `maxs`
D_Restarts(sz, p) == sz > p.maxs
D_TopSize(sz, p) == IF D_Restarts(sz, p) THEN p.init ELSE sz
\* end of a non-final iteration: `corr` correction vectors are appended
D_Extend(sz, p) == sz + p.corr
P_SpaceHoldsNev(sz, p) == sz >= p.nev
P_SpaceFits(sz, p) == sz <= p.n

=============================================================================
