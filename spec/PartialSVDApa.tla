---------------------------- MODULE PartialSVDApa ----------------------------
(***************************************************************************)
(* Unbounded obligation for C16, discharged by Apalache (SMT): with the     *)
(* cache invalidated by compute() (the code after the fix), the read        *)
(* invariants of PartialSVDOps - matrix_U(k) / matrix_V(k) describe the     *)
(* most recent compute(), never index past the cache, and return            *)
(* min(k, nconv) columns - are INDUCTIVE for any number of calls, any       *)
(* nconv >= 0 and any k >= 0 (TLC: <= 6 calls, nconv <= 3).  The transitions *)
(* are the SV_* operators themselves (EXTENDS PartialSVDOps), not a copy.   *)
(* Negative control: without the invalidation the invariant is refuted.     *)
(***************************************************************************)
EXTENDS PartialSVDOps

VARIABLES
    \* @type: { gen: Int, nconv: Int, cacheGen: Int, cacheCols: Int };
    sv,
    \* @type: { gen: Int, at: Int, nc: Int, cols: Int, k: Int, ok: Bool };
    last,
    \* @type: Int;
    arg,
    \* @type: Bool;
    inval

NoRead == [gen |-> 0, at |-> 0, nc |-> 0, cols |-> 0, k |-> 0, ok |-> TRUE]
Init == sv = SV_Fresh /\ last = NoRead /\ arg = 0 /\ inval = TRUE
InitNoInval == sv = SV_Fresh /\ last = NoRead /\ arg = 0 /\ inval = FALSE

Compute == arg' \in Int /\ arg' >= 0 /\ sv' = SV_Compute(sv, arg', inval) /\ UNCHANGED <<last, inval>>
Read == arg' \in Int /\ arg' >= 0 /\ G_SV_Read(sv) /\ sv' = SV_ReadState(sv) /\ last' = SV_ReadResult(sv, arg') /\ UNCHANGED inval
Next == Compute \/ Read

ReadInv == last.gen = last.at /\ last.ok /\ (last.at = 0 \/ last.cols = Min(last.k, last.nc))
IndInv ==
    /\ sv.gen >= 0 /\ sv.nconv >= 0 /\ sv.cacheCols >= 0
    /\ (sv.cacheGen = 0 \/ (sv.cacheGen = sv.gen /\ sv.cacheCols = sv.nconv))     \* the cache is empty or current
    /\ (sv.gen = 0 => sv.cacheGen = 0)
    /\ ReadInv
IndInit ==
    /\ sv \in [gen : Int, nconv : Int, cacheGen : Int, cacheCols : Int]
    /\ last \in [gen : Int, at : Int, nc : Int, cols : Int, k : Int, ok : BOOLEAN]
    /\ arg \in Int /\ inval = TRUE /\ IndInv
\* negative control: the design before the fix (cache filled once, never invalidated) reaches a stale read within three calls
=============================================================================
