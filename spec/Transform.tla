------------------------------ MODULE Transform ------------------------------
(***************************************************************************)
(* Spectral transformations of the shift modes and the selection rules on   *)
(* the transformed spectrum, in EXACT integer arithmetic.                   *)
(* Eigenvalues and shifts are given in half-units: lam2 = 2*lambda,         *)
(* sig2 = 2*sigma (integers; complex values as pairs).  A transformed value *)
(* nu is a fraction num/den (den # 0); all comparisons are done by cross-   *)
(* multiplication.  |lam2 - sig2| <= 60 keeps every product below 2^31.     *)
(*   mode: "plain" | "chol" | "reginv"      nu = lambda                     *)
(*         "si" | "gsi"                     nu = 1/(lambda - sigma)         *)
(*         "buck"                           nu = lambda/(lambda - sigma)    *)
(*         "cay"                            nu = (lambda+sigma)/(lambda-sigma) *)
(*         "csi" (real lambda only)         nu = d/(d^2 + s^2), d = lambda - Re sigma, s = Im sigma *)
(***************************************************************************)
EXTENDS Naturals, Integers, Sequences, FiniteSets

Abs(x) == IF x < 0 THEN -x ELSE x
Sgn(x) == IF x > 0 THEN 1 ELSE IF x < 0 THEN -1 ELSE 0

\* real eigenvalue lam2, real shift sig2 (sigi2 = 2 Im sigma for csi)
Nu(mode, lam2, sig2, sigi2) ==
    CASE mode \in {"plain", "chol", "reginv"} -> [num |-> lam2, den |-> 1]
      [] mode \in {"si", "gsi"} -> [num |-> 2, den |-> lam2 - sig2]
      [] mode = "buck" -> [num |-> lam2, den |-> lam2 - sig2]
      [] mode = "cay" -> [num |-> lam2 + sig2, den |-> lam2 - sig2]
      [] OTHER -> [num |-> 2 * (lam2 - sig2), den |-> (lam2 - sig2) * (lam2 - sig2) + sigi2 * sigi2]    \* csi, real lambda

\* back-transformations documented in the solvers: returns lambda2 = 2*lambda as a fraction [num, den]
Back(mode, nu, sig2) ==
    CASE mode \in {"plain", "chol", "reginv"} -> [num |-> nu.num, den |-> nu.den]
      [] mode \in {"si", "gsi"} -> [num |-> 2 * nu.den + sig2 * nu.num, den |-> nu.num]          \* 1/nu + sigma  (in half units: 2/nu + sig2)
      [] mode = "buck" -> [num |-> sig2 * nu.num, den |-> nu.num - nu.den]                        \* sigma nu / (nu - 1)
      [] OTHER -> [num |-> sig2 * (nu.num + nu.den), den |-> nu.num - nu.den]                     \* cay: sigma (nu + 1)/(nu - 1)
FracEq(f, x) == f.den # 0 /\ f.num = x * f.den

\* sign of a/b - c/d for nonzero b, d
CmpFrac(a, b) == Sgn((a.num * b.den - b.num * a.den) * Sgn(a.den) * Sgn(b.den))
CmpAbsFrac(a, b) == Sgn(Abs(a.num) * Abs(b.den) - Abs(b.num) * Abs(a.den))

\* Selection on real transformed values.  Returns TRUE iff a is STRICTLY preferred to b under the rule.
\*   0 LargestMagn 3 LargestAlge 4 SmallestMagn 7 SmallestAlge   (8 BothEnds is handled by WantedBothEnds)
Prefers(rule, a, b) ==
    CASE rule = 0 -> CmpAbsFrac(a, b) > 0
      [] rule = 4 -> CmpAbsFrac(a, b) < 0
      [] rule = 3 -> CmpFrac(a, b) > 0
      [] rule = 7 -> CmpFrac(a, b) < 0
      [] OTHER -> FALSE

\* The set of indices the rule names, computed by ranking (O(n^2)): index i is wanted iff fewer than k indices are strictly
\* preferred to it.  The rule DETERMINES the answer iff that set has exactly k members (no tie at the boundary).
Better(rule, nus, i) == Cardinality({j \in DOMAIN nus : Prefers(rule, nus[j], nus[i])})
WantedSetPlain(rule, nus, k) == {i \in DOMAIN nus : Better(rule, nus, i) < k}
\* BothEnds: ceil(k/2) algebraically largest plus floor(k/2) algebraically smallest
TopSet(nus, m) == {i \in DOMAIN nus : Cardinality({j \in DOMAIN nus : CmpFrac(nus[j], nus[i]) > 0}) < m}
BotSet(nus, m) == {i \in DOMAIN nus : Cardinality({j \in DOMAIN nus : CmpFrac(nus[j], nus[i]) < 0}) < m}
WantedSet(rule, nus, k) ==
    IF rule = 8 THEN TopSet(nus, (k + 1) \div 2) \cup BotSet(nus, k \div 2) ELSE WantedSetPlain(rule, nus, k)
\* Separation (domain of C04: "spaced by at least ~0.5% of the spectral spread in the rule's key"; 2% is required here so that
\* borderline cases are skipped rather than judged).  Keys are compared in 2^-16 fixed point; this only filters the domain.
Fix(f) == (f.num * 65536) \div f.den
KeyFix(rule, f) == IF rule \in {0, 4} THEN Fix([num |-> Abs(f.num), den |-> Abs(f.den)]) ELSE Fix([num |-> f.num * Sgn(f.den), den |-> Abs(f.den)])
MaxOf(S) == CHOOSE x \in S : \A y \in S : y <= x
MinOf(S) == CHOOSE x \in S : \A y \in S : y >= x
SeparatedSets(keysIn, keysOut, keysAll) ==
    keysOut = {} \/ keysIn = {} \/
    LET spread == MaxOf(keysAll) - MinOf(keysAll)
        gap == MinOf({Abs(a - b) : a \in keysIn, b \in keysOut})
    IN gap * 50 >= spread
Separated(rule, nus, k) ==
    LET S == IF rule = 8 THEN TopSet(nus, (k + 1) \div 2) \cup BotSet(nus, k \div 2) ELSE WantedSetPlain(rule, nus, k)
        r2 == IF rule = 8 THEN 3 ELSE rule
        kin == {KeyFix(r2, nus[i]) : i \in S}
        kout == {KeyFix(r2, nus[i]) : i \in (DOMAIN nus) \ S}
    IN SeparatedSets(kin, kout, kin \cup kout)

Determined(rule, nus, k) ==
    Separated(rule, nus, k) /\
    IF rule = 8
    THEN LET T == TopSet(nus, (k + 1) \div 2) Bt == BotSet(nus, k \div 2) IN
         Cardinality(T) = (k + 1) \div 2 /\ Cardinality(Bt) = k \div 2 /\ T \cap Bt = {}
    ELSE Cardinality(WantedSetPlain(rule, nus, k)) = k
WantedOK(rule, nus, S, k) == S = WantedSet(rule, nus, k)

\* ---- general (complex) eigenvalues lam = (re2 + i im2)/2, plain mode and real shift-invert ------------------------
\* keys as fractions; plain: |lam|^2, Re lam, |Im lam|;  si: nu = 1/(lam - sigma): |nu|^2 = 4/(d^2+b^2), Re nu = 2d/(d^2+b^2), |Im nu| = 2|b|/(d^2+b^2)
CKey(mode, rule, re2, im2, sig2) ==
    LET d == re2 - sig2 m == d * d + im2 * im2 IN
    IF mode = "plain"
    THEN CASE rule \in {0, 4} -> [num |-> re2 * re2 + im2 * im2, den |-> 1]
           [] rule \in {1, 5} -> [num |-> re2, den |-> 1]
           [] OTHER -> [num |-> Abs(im2), den |-> 1]
    ELSE CASE rule \in {0, 4} -> [num |-> 1, den |-> m]
           [] rule \in {1, 5} -> [num |-> d, den |-> m]
           [] OTHER -> [num |-> Abs(im2), den |-> m]
CLargest(rule) == rule \in {0, 1, 2}
CPrefers(mode, rule, re2, im2, sig2, i, j) ==
    LET c == CmpFrac(CKey(mode, rule, re2[i], im2[i], sig2), CKey(mode, rule, re2[j], im2[j], sig2)) IN
    IF CLargest(rule) THEN c > 0 ELSE c < 0
CWantedSet(mode, rule, re2, im2, sig2, k) ==
    {i \in DOMAIN re2 : Cardinality({j \in DOMAIN re2 : CPrefers(mode, rule, re2, im2, sig2, j, i)}) < k}
\* determined iff exactly k indices qualify (a conjugate pair has equal keys under every rule, so a pair straddling the
\* boundary makes the case undetermined and it is skipped)
CSeparated(mode, rule, re2, im2, sig2, k) ==
    LET S == CWantedSet(mode, rule, re2, im2, sig2, k)
        kf(i) == Fix(CKey(mode, rule, re2[i], im2[i], sig2))
        kin == {kf(i) : i \in S}
        kout == {kf(i) : i \in (DOMAIN re2) \ S}
    IN SeparatedSets(kin, kout, kin \cup kout)
CDetermined(mode, rule, re2, im2, sig2, k) ==
    Cardinality(CWantedSet(mode, rule, re2, im2, sig2, k)) = k /\ CSeparated(mode, rule, re2, im2, sig2, k)
CIsWanted(mode, rule, re2, im2, sig2, S, k) == S = CWantedSet(mode, rule, re2, im2, sig2, k)
=============================================================================
