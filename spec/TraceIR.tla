------------------------------ MODULE TraceIR ------------------------------
(***************************************************************************)
(* Trace validation of recorded executions of the real solvers             *)
(* (SymEigsSolver, HermEigsSolver, SymEigsShiftSolver, GenEigsSolver,       *)
(* GenEigsRealShiftSolver, GenEigsComplexShiftSolver, SymGEigsSolver,       *)
(* SymGEigsShiftSolver) against IRSolver.tla.                               *)
(*                                                                          *)
(* The trace (ndjson, env TRACE) holds many executions separated by Reset   *)
(* lines.  Each line is one of                                              *)
(*   - a hook event emitted by the instrumented library (guard              *)
(*     SPECTRA_VERIF): it is replayed through the U_X function of           *)
(*     IRSolver.tla; a false guard G_X is RECORDED as a monitor hit         *)
(*     (rule "G:X") and the replay continues;                               *)
(*   - a harness line (Call / Ret / Threw / Obs / Arm / OpProbe / End):     *)
(*     the public API as the caller sees it;                                *)
(*   - a measurement line (MFac / MConv / MPairs): magnitudes measured in   *)
(*     extended precision on the q scale, JUDGED here.                      *)
(* After every line all design invariants of IRSolver.tla are evaluated on  *)
(* the new state.  Hits accumulate in `mon`; the final action writes        *)
(* mon and the coverage counters to the file named by env OUT.              *)
(***************************************************************************)
EXTENDS IRSolver, TraceLib, Json, IOUtils

TF == INSTANCE Transform
Pub == INSTANCE IRPublic

VARIABLES l, mon, cov, cx

Tr == ndJsonDeserialize(IOEnv.TRACE)
OutFile == IOEnv.OUT

tvars == <<s, l, mon, cov, cx>>

(***************************************************************************)
(* Calibration constants of the acceptance formulas (q units, 16 = 1 bit).  *)
(* Fixed once from the backward-error theory of the operations with         *)
(* generous constants; never tuned per input.                               *)
(***************************************************************************)
QC_ROUND == 192    \* rounding-level multiple: 2^12 * n * eps * scale
QC_TOL   == 48     \* slack on the tol-level term: factor 8
QC_NORM  == 128    \* | ||x|| - 1 |  <= 2^8 n eps
QC_ORTH  == 160    \* |x_i' x_j|      <= 2^10 n eps
QC_KRY   == 160    \* Krylov identities <= 2^10 n eps (relative to ||OP||)

CovKeys == {"runs", "events", "computes", "returns", "notconv_with_flags", "successful", "maxit0",
            "second_compute", "breakdown_steps", "restarts", "double_shifts", "single_shifts",
            "faults", "init_throw", "compute_throw", "pairs_judged", "conv_judged", "fac_judged",
            "digest_compared", "opprobe_compared", "obs", "expand_basis", "gen_runs", "herm_runs",
            "fresh_objects", "pub_calls", "pub_rejected", "pub_faulted", "sorted_checked", "prefix_checked", "known_family_runs", "sel_judged", "sel_skipped_history", "sel_skipped_ambiguous", "sel_not_successful"}

Bump(c, key, by) == [c EXCEPT ![key] = @ + by]

Hit(rule) == [r |-> rule, run |-> cx.run, l |-> l]
\* keep the first hit of every (rule, run)
AddHits(m, new) == m \cup {h \in new : ~\E g \in m : g.r = h.r /\ g.run = h.run}
If(c, rule) == IF c THEN {} ELSE {Hit(rule)}

\* design invariants of IRSolver.tla evaluated on a state of a recorded execution
InvHits(st) ==
    If(TypeOKs(st), "I:TypeOK") \cup
    If(P_ReturnedAreFresh(st), "I:ReturnedAreFresh") \cup
    If(P_CountsAgree(st), "I:CountsAgree") \cup
    If(P_OpsCounted(st), "I:OpsCounted") \cup
    If(P_RestartsBounded(st), "I:RestartsBounded") \cup
    If(P_WorkBound(st), "I:WorkBound") \cup
    If(P_KInRange(st), "I:KInRange") \cup
    If(P_ShiftInRange(st), "I:ShiftInRange") \cup
    If(P_InitMakesFresh(st), "I:InitMakesFresh") \cup
    If(P_NoFacThrowAfterInit(st), "I:NoFacThrowAfterInit")

InfoName(i) == CASE i = 0 -> "Successful" [] i = 1 -> "NotComputed" [] i = 2 -> "NotConverging" [] OTHER -> "NumericalIssue"

NoCall == [f |-> "none", aid |-> -1, sv |-> -1, sel |-> 0, maxit |-> 0, sort |-> 0, qtol |-> 0, state |-> "none",
           cend |-> <<>>, x |-> ""]

FreshCx(e, run) ==
    [run |-> run, id |-> e.id, n |-> e.n, nev |-> e.nev, ncv |-> e.ncv, ty |-> e.ty, gen |-> (e.cls \in {"gen", "genrs", "gencs"}),
     cls |-> e.cls, mode |-> e.mode, qn |-> e.qn, qnA |-> e.qnA, qnB |-> e.qnB, qnOP |-> e.qnOP, qcond |-> e.qcond, qnS |-> e.qnS,
     ref |-> e.ref, kf |-> e.kf, live |-> e.live, desc |-> e.desc,
     call |-> NoCall,
     ncomp |-> 0,        \* compute() calls on the current object
     sinceInit |-> -1,   \* compute() calls since the last successful init (-1: no successful init)
     lastsv |-> -1,      \* start vector id of the last successful init
     digs |-> <<>>,      \* C06: sequence of [sv, aid, dg] seen for "init(v); compute(args)" on any object of this run
     opdg |-> -1,        \* C06: operator probe digest (first seen)
     armed |-> 0,        \* C14: fault armed at this relative index (0 = none)
     disarmed |-> FALSE, \* C14: the last Arm line removed the fault (F0): from here on the run is the fault-free retry
     nfault |-> 0,       \* C14: Threw(fault) lines seen
     prevdesc |-> "",
     lastObs |-> <<>>,
     pub |-> Pub!PFresh(e.nev, e.ncv),   \* IRPublic.tla: the public state, tracked from the harness lines alone
     started |-> 0]                      \* compute() calls started on the current object

\* ------------------------------------------------------------------------------------------
\* Each event yields [s |-> new solver state, h |-> hits, cx |-> new context]
Res(ns, hs, ncx) == [s |-> ns, h |-> hs, cx |-> ncx]

Cfg == [gen |-> cx.gen, nev |-> cx.nev, ncv |-> cx.ncv]

\* ---- hook events -------------------------------------------------------------------------
EvInitBegin(e) == Res(U_InitBegin(s), If(G_InitBegin(s), "G:InitBegin"), cx)
EvFacInit(e) ==
    LET kk == e.v[1] o == e.v[2] IN
    Res(U_FacInit(s, kk, o), If(G_FacInit(s, kk, o), "G:FacInit") \cup If(o = e.t, "OpsEqTrue@FacInit"), cx)
EvInitEnd(e) == Res(U_InitEnd(s, e.v[1]), If(G_InitEnd(s, e.v[1]), "G:InitEnd"), cx)
EvComputeBegin(e) ==
    LET mx == e.v[2] IN
    Res(U_ComputeBegin(s, mx),
        If(G_ComputeBegin(s, mx), "G:ComputeBegin")
        \cup If(cx.call.f = "compute" /\ cx.call.sel = e.v[1] /\ cx.call.maxit = mx /\ cx.call.sort = e.v[3], "ArgsForwarded"),
        cx)
EvFacNoop(e) == Res(U_FacNoop(s, e.v[1], e.v[2], e.v[3]), If(G_FacNoop(s, e.v[1], e.v[2], e.v[3]), "G:FacNoop"), cx)
EvFacThrow(e) == Res(U_FacThrow(s, e.v[1], e.v[2], e.v[3]), If(G_FacThrow(s, e.v[1], e.v[2], e.v[3]), "G:FacThrow"), cx)
EvFacBegin(e) ==
    Res(U_FacBegin(s, e.v[1], e.v[2], e.v[3], e.v[4]), If(G_FacBegin(s, e.v[1], e.v[2], e.v[3], e.v[4]), "G:FacBegin"), cx)
EvFacStep(e) ==
    LET i == e.v[1] rs == (e.v[2] = 1) o == e.v[3] IN
    Res(U_FacStep(s, i, rs, o), If(G_FacStep(s, i, rs, o), "G:FacStep") \cup If(o = e.t - e.pr, "OpsEqTrue@FacStep"), cx)
EvFacDone(e) ==
    Res(U_FacDone(s, e.v[2], e.v[3], e.v[4]), If(G_FacDone(s, e.v[2], e.v[3], e.v[4]), "G:FacDone"), cx)
\* expand_basis: v = [cols, seed, iter, ok, ops]; it must succeed, with the documented seed 2*cols
EvExpandBasis(e) ==
    Res(s, If(s.fnext # 0 /\ e.v[1] = s.fnext - 1, "G:ExpandBasis") \cup If(e.v[4] = 1, "ExpandBasisFailed")
           \cup If(e.v[2] = 2 * e.v[1], "ExpandSeed"), cx)
EvRetrieve(e) ==
    Res(U_Retrieve(s), If(G_Retrieve(s), "G:Retrieve") \cup If(cx.call.f = "compute" /\ e.v[1] = cx.call.sel, "SelectionForwarded"), cx)
EvRestartEnd(e) == Res(U_RestartEnd(s, e.v[1]), If(G_RestartEnd(s, e.v[1]), "G:RestartEnd"), cx)
EvNumConv(e) == Res(U_NumConv(s, e.v[1]), If(G_NumConv(s, e.v[1]), "G:NumConv"), cx)
EvNevAdj(e) == Res(U_NevAdj(s, e.v[1], e.v[2]), If(G_NevAdj(s, e.v[1], e.v[2]), "G:NevAdj"), cx)
EvRestartBegin(e) == Res(U_RestartBegin(s, e.v[1]), If(G_RestartBegin(s, e.v[1]), "G:RestartBegin"), cx)
\* Gen only: top of the shift-loop body, v = [i, is_complex(ritz[i])]; the index read must exist
EvShiftBegin(e) == Res(s, If(s.pc = "c_shift" /\ e.v[1] = s.spos /\ e.v[1] >= 0 /\ e.v[1] < s.ncv, "G:ShiftBegin"), cx)
EvCompressH(e) == Res(U_CompressH(s, e.v[1], e.v[2]), If(G_CompressH(s, e.v[1], e.v[2]), "G:CompressH"), cx)
\* v = [i, kind, is_complex]: a single shift taken from a complex Ritz value is legal only when no partner is adjacent
EvShift(e) == Res(U_Shift(s, e.v[1], e.v[2]), If(G_Shift(s, e.v[1], e.v[2]), "G:Shift"), cx)
EvCompressV(e) == Res(U_CompressV(s, e.v[1]), If(G_CompressV(s, e.v[1]), "G:CompressV"), cx)
EvSortBegin(e) ==
    Res(U_SortBegin(s), If(G_SortBegin(s), "G:SortBegin") \cup If(cx.call.f = "compute" /\ e.v[1] = cx.call.sort, "SortingForwarded"), cx)
EvSortEnd(e) == Res(U_SortEnd(s), If(G_SortEnd(s), "G:SortEnd"), cx)
\* complex-shift post-processing happens between the loop and sort_ritzpair
EvProbe(e) ==
    CASE e.e = "ProbeShift" -> Res(U_ProbeBegin(s), If(G_ProbeBegin(s), "G:ProbeBegin"), cx)
      [] e.e = "BackDone" -> Res(U_ProbeEnd(s), If(G_ProbeEnd(s), "G:ProbeEnd"), cx)
      [] OTHER -> Res(s, If(G_ProbeStep(s), "G:ProbeStep"), cx)
EvComputeEnd(e) ==
    LET r == e.v[1] inf == InfoName(e.v[2]) ni == e.v[3] o == e.v[4] IN
    Res(U_ComputeEnd(s, r, inf, ni, o), If(G_ComputeEnd(s, r, inf, ni, o), "G:ComputeEnd"),
        [cx EXCEPT !.call.cend = e.v])

\* ---- harness lines -----------------------------------------------------------------------
EvCall(e) ==
    CASE e.f = "new" ->
           Res(Fresh(Cfg), {}, [cx EXCEPT !.call = [NoCall EXCEPT !.f = "new", !.state = "called"], !.ncomp = 0, !.sinceInit = -1, !.lastsv = -1,
                                    !.pub = Pub!PFresh(cx.nev, cx.ncv), !.started = 0])
      [] e.f = "init" ->
           Res(s, If(s.pc = "idle", "G:CallInit"), [cx EXCEPT !.call = [NoCall EXCEPT !.f = "init", !.sv = e.a, !.state = "called"]])
      [] e.f = "compute" ->
           Res(s, If(s.pc = "idle", "G:CallCompute"),
               [cx EXCEPT !.call = [f |-> "compute", aid |-> e.a, sv |-> e.b, sel |-> e.sel, maxit |-> e.maxit, sort |-> e.sort,
                                    qtol |-> e.qtol, state |-> "called", cend |-> <<>>, x |-> ""],
                          !.ncomp = @ + 1, !.started = @ + 1])
      [] OTHER -> Res(s, {Hit("UnknownCall")}, cx)

EvRet(e) ==
    CASE e.f = "new" -> Res(s, {}, [cx EXCEPT !.call.state = "ret"])
      [] e.f = "init" ->
           Res(s, If(s.pc = "idle" /\ s.inited, "InitReturnedWithoutInit"),
               [cx EXCEPT !.call.state = "ret", !.sinceInit = 0, !.lastsv = cx.call.sv])
      [] e.f = "compute" ->
           Res(s, If(s.pc = "idle", "ComputeReturnedMidway")
                  \cup If(Len(cx.call.cend) = 4 /\ cx.call.cend[1] = e.r, "RetEqComputeEnd"),
               [cx EXCEPT !.call.state = "ret", !.sinceInit = IF @ >= 0 THEN @ + 1 ELSE @])
      [] OTHER -> Res(s, {Hit("UnknownRet")}, cx)

\* An exception reached the caller.  x: fault (the user's operator) | invalid_argument | runtime_error | logic_error | ...
EvThrew(e) ==
    \* a compute() that threw has run too (possibly to convergence, if it was the final sort that rejected the sorting rule): the
    \* next compute() is NOT "the compute() that directly follows init()" of C06/C14
    LET ncx == [cx EXCEPT !.call.state = "threw", !.call.x = e.x, !.sinceInit = IF e.f = "init" THEN -1 ELSE IF e.f = "compute" /\ @ >= 0 THEN @ + 1 ELSE @,
                          !.nfault = IF e.x = "fault" THEN @ + 1 ELSE @,
                          !.armed = IF e.x = "fault" THEN 0 ELSE @]
        \* C14: once the fault is gone the object is usable again - the fault-free retry of a call that succeeded before the fault was
        \* armed must not fail (invalid_argument is the caller's own doing: unsupported rule, zero vector, compute() without init())
        uaf == If(~(cx.disarmed /\ e.f \in {"init", "compute"} /\ e.x # "invalid_argument"), "UsableAfterFault")
    IN
    CASE e.x = "fault" ->
           Res(U_OpThrows(s), uaf \cup If(G_OpThrows(s), "G:OpThrows") \cup If(cx.armed # 0 /\ e.tag = cx.armed, "SameException"), ncx)
      [] e.x = "invalid_argument" /\ s.pc = "idle" -> Res(s, {}, ncx)     \* already unwound by a FacThrow event, or constructor
      [] e.x = "invalid_argument" /\ s.pc = "init" -> Res(U_InitThrowZero(s), If(cx.call.sv = 99, "UnexpectedInitThrow"), ncx)
      [] e.x = "invalid_argument" /\ s.pc = "c_retr" -> Res(U_RetrieveThrow(s), {}, ncx)
      [] e.x = "invalid_argument" /\ s.pc \in {"c_sort", "c_sorting"} -> Res(U_SortThrow(s), {}, ncx)
      \* any other exception type / place: documented types are invalid_argument, runtime_error, logic_error
      [] OTHER -> Res([s EXCEPT !.pc = "idle", !.exc = "fault", !.fnext = 0, !.fto = 0, !.facOK = FALSE, !.inited = FALSE],
                      uaf \cup If(e.x \in {"runtime_error", "logic_error", "invalid_argument"}, "UndocumentedException"), ncx)

\* a swallowed fault shows as FaultCountMatches at the next Obs (faults thrown by the wrapper vs. Threw lines seen)
\* disarmed: the harness has explicitly removed the fault (F0) - from here on the run is the fault-free retry
EvArm(e) == Res(s, {}, [cx EXCEPT !.armed = e.k, !.disarmed = (e.k = 0)])

\* C06: the operator behaves the same whenever it is probed
EvOpProbe(e) ==
    Res(s, If(cx.opdg = -1 \/ cx.opdg = e.dg, "OperatorUnchanged"), [cx EXCEPT !.opdg = IF @ = -1 THEN e.dg ELSE @])

\* ---- Obs: the public accessors after a call ------------------------------------------------
HermKeys(e, rule) == IF rule \in {3, 7} THEN e.kA ELSE e.kM
GenKeys(e, rule) == CASE rule \in {0, 4} -> e.kM [] rule \in {1, 5} -> e.kR [] OTHER -> e.kI
Keys(e, rule) == IF cx.gen THEN GenKeys(e, rule) ELSE HermKeys(e, rule)
SortRuleOK(rule) == IF cx.gen THEN rule \in {0, 1, 2, 4, 5, 6} ELSE rule \in {0, 3, 4, 7}

\* eigenvectors(m): row = <<m, cols, q(max |X_m - X(:,1..cols)|)>>: min(m, count) columns, equal to rounding level
PrefixOK(e) ==
    \A j \in 1 .. Len(e.cdm) :
        LET row == e.cdm[j] IN
        row[2] = MinI(row[1], e.ncol) /\ QLe(row[3], QEPS(cx.ty) + 96 + cx.qcond)

SameDig(a, b) == a[1] = b[1] /\ a[2] = b[2] /\ a[3] = b[3]

\* ---- IRPublic.tla: every observed public call is one PubStep of the public state --------------------------
\* Only harness lines are used (Call / Ret / Threw / Obs): this judgement does not depend on any hook event.
SelRuleOK(rule) == IF cx.gen THEN rule \in {0, 1, 2, 4, 5, 6} ELSE rule \in {0, 3, 4, 7, 8}
PubKind == IF cx.call.f = "init" THEN (IF cx.call.sv = 99 THEN "zero" ELSE "ok")
           ELSE IF ~SelRuleOK(cx.call.sel) THEN "badsel"
           ELSE IF ~(IF cx.gen THEN cx.call.sort \in {0, 1, 2, 4, 5, 6} ELSE cx.call.sort \in {0, 3, 4, 7}) THEN "badsort" ELSE "ok"
PubHow == IF cx.call.state = "ret" THEN "ret"
          ELSE IF cx.call.x = "fault" THEN "fault" ELSE IF cx.call.x = "invalid_argument" THEN "invalid" ELSE "other"
\* the public state after the call: accessor values as observed, the hidden part (k, fac, inited, ncomp) as IRPublic determines it
\* from the way the call ended
PubAfter(e) ==
    LET p == cx.pub how == PubHow f == cx.call.f
        obsd == [p EXCEPT !.count = e.nval, !.info = InfoName(e.info), !.niter = e.niter, !.ops = e.nops,
                          !.exc = CASE how = "ret" -> "none" [] how = "invalid" -> "invalid" [] OTHER -> "fault"]
    IN CASE f = "init" /\ how = "ret" -> [obsd EXCEPT !.k = 1, !.fac = "ok", !.inited = TRUE, !.ncomp = 0]
         [] f = "init" /\ how = "invalid" -> [obsd EXCEPT !.inited = FALSE, !.ncomp = 0]
         [] f = "init" -> [obsd EXCEPT !.inited = FALSE, !.ncomp = 0, !.fac = IF p.k = 0 THEN "none" ELSE "bad"]
         [] f = "compute" /\ p.fac = "none" -> [obsd EXCEPT !.ncomp = @ + 1]
         [] f = "compute" /\ how \in {"ret", "invalid"} -> [obsd EXCEPT !.k = p.ncv, !.ncomp = @ + 1]
         [] OTHER -> [obsd EXCEPT !.fac = "bad", !.inited = FALSE, !.ncomp = @ + 1]
PubHits(e) ==
    IF e.after \notin {"init", "compute"} \/ cx.call.f \notin {"init", "compute"} THEN {}
    ELSE LET q == PubAfter(e) IN
         (IF PubHow = "other" THEN {}
          ELSE If(Pub!PubStep(cx.pub, cx.call.f, PubKind, cx.call.maxit, PubHow, q),
                  IF cx.call.f = "init" THEN "PubInit" ELSE "PubCompute"))
         \cup If(Pub!PTypeOK(q), "PubI:TypeOK") \cup If(Pub!PStatusIffAll(q), "PubI:StatusIffAll")
         \cup If(Pub!PInitMakesFresh(q), "PubI:InitMakesFresh")
         \cup If(Pub!PNotComputedBefore(q, cx.started), "PubI:NotComputedBefore")

EvObs(e) ==
    LET after == e.after
        okret == cx.call.state = "ret"
        always == If(e.fin = 1, "AllFinite") \cup If(e.bad = 0, "OpArgsValid") \cup If(e.nrow = cx.n, "RowsEqN")
                  \cup If(e.nval = e.ncol, "ValsEqCols") \cup If(e.nval <= cx.nev, "CountLeNev")
                  \cup If(PrefixOK(e), "PrefixColumns")
                  \* after a call that returned normally (an exception from the B side may follow a completed A application)
                  \cup If(~okret \/ e.nops = e.t - e.probe, "OpsEqTrue")
        before == IF cx.ncomp = 0 THEN If(e.info = 1 /\ e.nval = 0 /\ e.ncol = 0, "NotComputedBefore") ELSE {}
        comp == IF after = "compute" /\ okret
                THEN If(Len(cx.call.cend) = 4 /\ cx.call.cend[1] = e.nval, "RetEqSizes")
                     \cup If((e.info = 0) <=> (e.nval = cx.nev), "StatusIffAll")
                     \cup If(e.info \in {0, 2}, "StatusDocumented")
                     \cup If(Len(cx.call.cend) = 4 /\ e.info = cx.call.cend[2] /\ e.niter = cx.call.cend[3] /\ e.nops = cx.call.cend[4], "AccessorsEqComputeEnd")
                     \cup If(~SortRuleOK(cx.call.sort) \/ OrderedKeys(cx.call.sort, Keys(e, cx.call.sort)), "SortedBy")
                     \cup If(s.flags = e.nval, "FlagsEqCount")
                ELSE {}
        \* C06/C14: "init(v); compute(args)" gives the same digest whatever happened before on any object of the run
        keyed == after = "compute" /\ okret /\ cx.sinceInit = 1
        same == {j \in 1 .. Len(cx.digs) : cx.digs[j].sv = cx.lastsv /\ cx.digs[j].aid = cx.call.aid}
        c06 == IF keyed /\ same # {} THEN If(\A j \in same : SameDig(cx.digs[j].dg, e.dg), "SameKeySameDigest") ELSE {}
        ndigs == IF keyed /\ same = {} THEN Append(cx.digs, [sv |-> cx.lastsv, aid |-> cx.call.aid, dg |-> e.dg]) ELSE cx.digs
    IN Res(s, always \cup before \cup comp \cup c06 \cup If(e.ft = cx.nfault, "FaultCountMatches") \cup PubHits(e),
           [cx EXCEPT !.digs = ndigs, !.lastObs = <<e.nval, e.info>>,
                      !.pub = IF e.after \in {"init", "compute"} /\ cx.call.f \in {"init", "compute"} THEN PubAfter(e) ELSE @])

\* ---- measurement lines ---------------------------------------------------------------------
Idx(seq) == 1 .. Len(seq)

\* C07: the Krylov identities at a point where the factorization is passed on
EvMFac(e) ==
    \* rounding errors accumulate with every implicit restart (V <- V Q): the bound grows linearly in the
    \* number of restarts performed on this factorization
    \* in the generalized modes the B-inner product and the factorized matrix contribute their condition number (qcond = 0 otherwise)
    LET bnd == QC_KRY + cx.qn + QEPS(cx.ty) + QLog2Up(s.restarts + 1) + cx.qcond IN
    Res(s, If(e.shape = 1, "FacShape")
           \cup (IF e.shape = 1 THEN
                   If(e.fin = 1, "FacFinite")
                   \cup If(QLe(e.qAV, bnd), "KrylovAV")
                   \cup If(QLe(e.qVV, bnd), "KrylovVV")
                   \cup If(QLe(e.qVf, bnd) \/ QLe(e.qVfr, bnd + 64), "KrylovVf")
                   \cup If(QLe(e.qbeta, bnd), "KrylovBeta")
                   \cup If(QLe(e.qHlow, bnd), "Hessenberg")
                   \cup If(e.tri = 1, "TridiagonalSymmetric")
                   \cup If(QLe(e.qHim, bnd), "KrylovRealH")
                   \cup If(e.at = "FacStep" \/ e.k = s.k, "KAdvertised")
                 ELSE {}), cx)

\* C01/C02 inside the loop: every pair flagged by num_converged is a genuine eigenpair of the ITERATED operator
\* to tol * max(eps^(2/3), |nu|) + rounding * ||OP||
ConvBound(qnu, qtol) == SumBound(qtol + QMax(QEPS23(cx.ty), qnu) + QC_TOL, QC_ROUND + cx.qn + QEPS(cx.ty) + cx.qnOP)
EvMConv(e) ==
    Res(s, If(\A i \in Idx(e.qres) : QLe(e.qres[i], ConvBound(e.qnu[i], e.qtol)), "ConvGenuine")
           \cup If(Len(e.idx) = s.flags, "ConvCount"), cx)

\* C01/C02/C03 at return: residual in the USER's problem.
\*   plain:            tol * max(eps^(2/3), |lambda|)                      + rounding * ||A||
\*   shift modes:      tol * ||A - sigma B|| (qnS, logged by the harness)   + rounding * cond * (||A|| + |lambda| ||B||)
\*   generalized:      tol * (||A|| + |lambda| ||B||)                       + rounding * cond * (same)
PairScale(qlam) == SumBound(cx.qnA, qlam + cx.qnB)
PairBound(qlam, qtol) ==
    LET tolterm == CASE cx.mode = "plain" -> qtol + QMax(QEPS23(cx.ty), qlam)
                     [] cx.mode \in {"si", "csi"} -> qtol + cx.qnS
                     [] OTHER -> qtol + PairScale(qlam) + cx.qcond
        rnd == QC_ROUND + cx.qn + QEPS(cx.ty) + cx.qcond + PairScale(qlam)
    IN SumBound(tolterm + QC_TOL, rnd)

EvMPairs(e) ==
    LET n == Len(e.qres)
        nb == QC_NORM + cx.qn + QEPS(cx.ty) + cx.qcond
        ob == QC_ORTH + cx.qn + QEPS(cx.ty) + cx.qcond
    IN
    Res(s, If(\A i \in 1 .. n : QLe(e.qres[i], PairBound(e.qlam[i], e.qtol)), "Genuine")
           \cup If(\A i \in 1 .. n : QLe(e.qnx[i], nb), "UnitNorm")
           \cup (IF cx.gen THEN {} ELSE If(QLe(e.qorth, ob), "Orthonormal"))
           \cup (IF cx.gen /\ cx.ref = 1
                 THEN If(\A i \in 1 .. n : QLe(e.qdist[i], PairBound(e.qlam[i], e.qtol) + 64), "InSpectrumOfA")
                 ELSE {})
           \* a returned vector that is a copy of an earlier returned vector (pidx # 0) is a duplicate eigenpair unless
           \* the matched eigenvalue of A is (numerically) multiple or defective (rmult > 1)
           \cup (IF cx.gen /\ cx.ref = 1 THEN If(\A i \in 1 .. n : e.pidx[i] = 0 \/ e.rmult[i] > 1, "Distinct") ELSE {}),
        cx)

\* C04: on a Successful return the k returned eigenvalues are the k the selection rule names, in the spectrum the rule acts on
\* (A's own spectrum, or nu = 1/(lambda-sigma), lambda/(lambda-sigma), (lambda+sigma)/(lambda-sigma) in the shift modes).
\* The prescribed spectrum is (Gaussian-)integer valued in half units; Transform.tla decides exactly.  Cases in which the
\* rule does not determine a unique set (ties at the boundary) are counted as skipped, not as passes.
SelIdx(e) == {e.ridx[i] : i \in 1 .. Len(e.ridx)}
SelDetermined(e) ==
    IF cx.gen
    THEN (IF cx.mode = "csi" THEN (\A j \in 1 .. Len(e.im2) : e.im2[j] = 0) /\ e.rule = 0
                                   /\ TF!Determined(0, [j \in 1 .. Len(e.re2) |-> TF!Nu("csi", e.re2[j], e.sig2, e.sigi2)], e.k)
          ELSE TF!CDetermined(cx.mode, e.rule, e.re2, e.im2, e.sig2, e.k))
    ELSE TF!Determined(e.rule, [j \in 1 .. Len(e.re2) |-> TF!Nu(cx.mode, e.re2[j], e.sig2, e.sigi2)], e.k)
SelOK(e) ==
    IF cx.gen
    THEN (IF cx.mode = "csi" THEN TF!WantedOK(0, [j \in 1 .. Len(e.re2) |-> TF!Nu("csi", e.re2[j], e.sig2, e.sigi2)], SelIdx(e), e.k)
          ELSE TF!CIsWanted(cx.mode, e.rule, e.re2, e.im2, e.sig2, SelIdx(e), e.k))
    ELSE TF!WantedOK(e.rule, [j \in 1 .. Len(e.re2) |-> TF!Nu(cx.mode, e.re2[j], e.sig2, e.sigi2)], SelIdx(e), e.k)
\* every returned value must lie within the residual-level bound of the prescribed value it was matched to
SelMatched(e) == Len(e.ridx) = e.k /\ \A i \in 1 .. Len(e.qdist) : QLe(e.qdist[i], PairBound(cx.qnA, cx.call.qtol) + 64)
\* C04 quantifies over inputs and configurations with the DEFAULT start vector: only the compute() that directly follows an init() is
\* judged.  (A compute() that continues a factorization which has already converged for another rule sees a nearly invariant Krylov
\* space and can report the pairs it already holds: observed on the unchanged tree, outside the property's domain.)
EvMSel(e) ==
    IF cx.sinceInit # 1 THEN Res(s, {}, cx)
    ELSE IF e.info # 0 THEN Res(s, {}, cx)
    ELSE IF ~SelDetermined(e) THEN Res(s, {}, cx)
    ELSE Res(s, If(SelMatched(e), "ReturnedInPrescribedSpectrum")
                \cup (IF SelMatched(e) THEN If(Cardinality(SelIdx(e)) = e.k, "ReturnedDistinct") \cup If(SelOK(e), "ReturnedIsWanted") ELSE {}), cx)

\* ov: heap blocks whose tail canary was found overwritten when they were freed (alloc_guard.h)
EvEnd(e) == Res(s, If(s.pc = "idle", "EndedMidCall") \cup If(e.ov = 0, "HeapOverrun"), cx)
EvAbort(e) == Res([s EXCEPT !.pc = "idle"], {Hit("Abort")}, cx)

Dispatch(e) ==
    CASE e.e = "InitBegin" -> EvInitBegin(e)
      [] e.e = "FacInit" -> EvFacInit(e)
      [] e.e = "InitEnd" -> EvInitEnd(e)
      [] e.e = "ComputeBegin" -> EvComputeBegin(e)
      [] e.e = "FacNoop" -> EvFacNoop(e)
      [] e.e = "FacThrow" -> EvFacThrow(e)
      [] e.e = "FacBegin" -> EvFacBegin(e)
      [] e.e = "FacStep" -> EvFacStep(e)
      [] e.e = "FacDone" -> EvFacDone(e)
      [] e.e = "ExpandBasis" -> EvExpandBasis(e)
      [] e.e = "Retrieve" -> EvRetrieve(e)
      [] e.e = "RestartEnd" -> EvRestartEnd(e)
      [] e.e = "NumConv" -> EvNumConv(e)
      [] e.e = "NevAdj" -> EvNevAdj(e)
      [] e.e = "RestartBegin" -> EvRestartBegin(e)
      [] e.e = "ShiftBegin" -> EvShiftBegin(e)
      [] e.e = "CompressH" -> EvCompressH(e)
      [] e.e = "Shift" -> EvShift(e)
      [] e.e = "CompressV" -> EvCompressV(e)
      [] e.e = "SortBegin" -> EvSortBegin(e)
      [] e.e = "SortEnd" -> EvSortEnd(e)
      [] e.e \in {"ProbeShift", "ProbeSolve", "PairFixup", "BackDone"} -> EvProbe(e)
      [] e.e = "ComputeEnd" -> EvComputeEnd(e)
      [] e.e = "Call" -> EvCall(e)
      [] e.e = "Ret" -> EvRet(e)
      [] e.e = "Threw" -> EvThrew(e)
      [] e.e = "Arm" -> EvArm(e)
      [] e.e = "OpProbe" -> EvOpProbe(e)
      [] e.e = "Obs" -> EvObs(e)
      [] e.e = "MFac" -> EvMFac(e)
      [] e.e = "MConv" -> EvMConv(e)
      [] e.e = "MPairs" -> EvMPairs(e)
      [] e.e = "MSel" -> EvMSel(e)
      [] e.e = "End" -> EvEnd(e)
      [] e.e = "Abort" -> EvAbort(e)
      [] e.e = "Reshift" -> Res(s, {}, cx)
      [] e.e = "OutOfRange" -> Res(s, {Hit("OutOfRange")}, cx)
      [] OTHER -> Res(s, {Hit("UnknownEvent:" \o e.e)}, cx)

\* coverage: which situations the recorded executions actually exercised
CovOf(e, r) ==
    LET c0 == Bump(cov, "events", 1)
        c1 == CASE e.e = "ComputeBegin" -> Bump(Bump(Bump(c0, "computes", 1), "maxit0", IF e.v[2] = 0 THEN 1 ELSE 0),
                                                "second_compute", IF cx.sinceInit >= 1 THEN 1 ELSE 0)
                [] e.e = "ComputeEnd" -> Bump(Bump(Bump(c0, "returns", 1), "successful", IF e.v[2] = 0 THEN 1 ELSE 0),
                                              "notconv_with_flags", IF e.v[2] = 2 /\ e.v[1] > 0 THEN 1 ELSE 0)
                [] e.e = "FacStep" -> Bump(c0, "breakdown_steps", e.v[2])
                [] e.e = "RestartEnd" -> Bump(c0, "restarts", 1)
                [] e.e = "Shift" -> IF e.v[2] = 2 THEN Bump(c0, "double_shifts", 1) ELSE Bump(c0, "single_shifts", 1)
                [] e.e = "Threw" -> IF e.x = "fault" THEN Bump(c0, "faults", 1)
                                    ELSE IF e.f = "init" THEN Bump(c0, "init_throw", 1) ELSE Bump(c0, "compute_throw", 1)
                [] e.e = "MPairs" -> Bump(c0, "pairs_judged", Len(e.qres))
                [] e.e = "MSel" -> IF cx.sinceInit # 1 THEN Bump(c0, "sel_skipped_history", 1)
                                   ELSE IF e.info # 0 THEN Bump(c0, "sel_not_successful", 1)
                                   ELSE IF SelDetermined(e) THEN Bump(c0, "sel_judged", 1) ELSE Bump(c0, "sel_skipped_ambiguous", 1)
                [] e.e = "MConv" -> Bump(c0, "conv_judged", Len(e.qres))
                [] e.e = "MFac" -> Bump(c0, "fac_judged", 1)
                [] e.e = "OpProbe" -> Bump(c0, "opprobe_compared", IF cx.opdg = -1 THEN 0 ELSE 1)
                [] e.e = "Obs" -> Bump(Bump(Bump(Bump(Bump(Bump(Bump(c0, "pub_calls", IF e.after \in {"init", "compute"} THEN 1 ELSE 0),
                                        "pub_rejected", IF e.after \in {"init", "compute"} /\ cx.call.state = "threw" /\ cx.call.x = "invalid_argument" THEN 1 ELSE 0),
                                        "pub_faulted", IF e.after \in {"init", "compute"} /\ cx.call.state = "threw" /\ cx.call.x = "fault" THEN 1 ELSE 0), "obs", 1), "digest_compared", IF Len(r.cx.digs) = Len(cx.digs) /\ e.after = "compute" /\ cx.call.state = "ret" /\ cx.sinceInit = 1 THEN 1 ELSE 0),
                                            "sorted_checked", IF e.after = "compute" /\ cx.call.state = "ret" /\ e.nval > 1 THEN 1 ELSE 0),
                                       "prefix_checked", Len(e.cdm))
                [] e.e = "ExpandBasis" -> Bump(c0, "expand_basis", 1)
                [] e.e = "Call" -> Bump(c0, "fresh_objects", IF e.f = "new" THEN 1 ELSE 0)
                [] OTHER -> c0
    IN c1

TrInit ==
    /\ l = 1 /\ mon = {} /\ cov = [key \in CovKeys |-> 0]
    /\ s = Fresh([gen |-> FALSE, nev |-> 1, ncv |-> 2])
    /\ cx = [run |-> 0, desc |-> "", prevdesc |-> "", live |-> 0]

\* C12/C14 leak observation: when the same descriptor is executed again (check.py repeats some descriptors three times)
\* the number of live heap blocks at the start of the third execution equals that at the start of the second
LeakHits(e) ==
    IF cx.run >= 2 /\ cx.desc = e.desc /\ cx.prevdesc = e.desc /\ cx.live # e.live THEN {Hit("NoLeak")} ELSE {}

TrReset ==
    /\ l <= Len(Tr) /\ Tr[l].e = "Reset"
    /\ LET e == Tr[l]
           ncx == [FreshCx(e, cx.run + 1) EXCEPT !.prevdesc = IF cx.run >= 1 THEN cx.desc ELSE ""] IN
        /\ cx' = ncx
        /\ s' = Fresh([gen |-> ncx.gen, nev |-> e.nev, ncv |-> e.ncv])
        /\ cov' = Bump(Bump(Bump(Bump(cov, "runs", 1), "events", 1), IF ncx.gen THEN "gen_runs" ELSE "herm_runs", 1),
                       "known_family_runs", IF e.kf # 0 THEN 1 ELSE 0)
        /\ mon' = IF cx.run >= 2 THEN AddHits(mon, LeakHits(e)) ELSE mon
    /\ l' = l + 1

TrStep ==
    /\ l <= Len(Tr) /\ Tr[l].e # "Reset"
    /\ LET e == Tr[l] r == Dispatch(e) IN
        /\ s' = r.s
        /\ cx' = r.cx
        /\ mon' = AddHits(mon, r.h \cup InvHits(r.s))
        /\ cov' = CovOf(e, r)
    /\ l' = l + 1

\* all lines consumed: write the verdict material and stop
TrFinish ==
    /\ l = Len(Tr) + 1
    /\ JsonSerialize(OutFile, [lines |-> Len(Tr), hits |-> mon, cov |-> cov])
    /\ l' = l + 1
    /\ UNCHANGED <<s, mon, cov, cx>>

TrNext == TrReset \/ TrStep \/ TrFinish
TraceSpec == TrInit /\ [][TrNext]_tvars
=============================================================================
