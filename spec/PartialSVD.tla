------------------------------ MODULE PartialSVD ------------------------------
(***************************************************************************)
(* contrib/PartialSVDSolver.h as a state machine over its public calls      *)
(* (C16, C06): compute(args) runs the inner symmetric solver and sets       *)
(* nconv; matrix_U(k)/matrix_V(k) read a lazily filled cache of the inner   *)
(* solver's eigenvectors.  V_Invalidate = FALSE is the design before the    *)
(* fix (the cache is filled once and never invalidated): TLC must reject it *)
(* (negative control).                                                      *)
(***************************************************************************)
EXTENDS Naturals, Integers, FiniteSets
CONSTANTS MaxCalls, MaxConv, V_Invalidate
VARIABLES gen,        \* number of compute() calls so far (0 = none)
          nconv,      \* converged triplets of the most recent compute()
          cacheGen,   \* compute() generation whose eigenvectors are in the cache (0 = empty)
          cacheCols,  \* columns in the cache
          lastRead,   \* what the last matrix_U/V call returned: [gen, cols, k] ; gen = 0 when nothing was read yet
          calls
vars == <<gen, nconv, cacheGen, cacheCols, lastRead, calls>>
Min(a, b) == IF a < b THEN a ELSE b

Init == gen = 0 /\ nconv = 0 /\ cacheGen = 0 /\ cacheCols = 0 /\ lastRead = [gen |-> 0, at |-> 0, nc |-> 0, cols |-> 0, k |-> 0, ok |-> TRUE] /\ calls = 0

Compute(c) ==
    /\ calls < MaxCalls /\ c \in 0 .. MaxConv
    /\ gen' = gen + 1 /\ nconv' = c /\ calls' = calls + 1
    /\ IF V_Invalidate THEN cacheGen' = 0 /\ cacheCols' = 0 ELSE UNCHANGED <<cacheGen, cacheCols>>
    /\ UNCHANGED lastRead

\* matrix_U(k) / matrix_V(k): fill the cache if it is empty, then return leftCols(min(k, nconv)) of it;
\* taking more columns than the cache holds is an index error (ok = FALSE)
Read(k) ==
    /\ calls < MaxCalls /\ gen > 0 /\ k \in 0 .. MaxConv + 1
    /\ LET cg == IF cacheGen = 0 THEN gen ELSE cacheGen
           cc == IF cacheGen = 0 THEN nconv ELSE cacheCols
           want == Min(k, nconv)
       IN /\ cacheGen' = cg /\ cacheCols' = cc
          /\ lastRead' = [gen |-> cg, at |-> gen, nc |-> nconv, cols |-> Min(want, cc), k |-> k, ok |-> want <= cc]
    /\ calls' = calls + 1 /\ UNCHANGED <<gen, nconv>>

Next == (\E c \in 0 .. MaxConv : Compute(c)) \/ (\E k \in 0 .. MaxConv + 1 : Read(k))
Spec == Init /\ [][Next]_vars

\* matrix_U(k) and matrix_V(k) always describe the most recent compute(), never read out of range, and return min(k, nconv) columns
\* (at = generation of the most recent compute() when the read happened, nc = its nconv)
CacheIsCurrent == lastRead.gen = lastRead.at
NoIndexError == lastRead.ok
ColsReturned == lastRead.at = 0 \/ lastRead.cols = Min(lastRead.k, lastRead.nc)
=============================================================================
