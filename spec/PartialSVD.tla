------------------------------ MODULE PartialSVD ------------------------------
(***************************************************************************)
(* contrib/PartialSVDSolver.h as a state machine over its public calls      *)
(* (C16, C06): compute(args) runs the inner symmetric solver and sets       *)
(* nconv; matrix_U(k)/matrix_V(k) read a lazily filled cache of the inner   *)
(* solver's eigenvectors.  V_Invalidate = FALSE is the design before the    *)
(* fix (the cache is filled once and never invalidated): TLC must reject it *)
(* (negative control).                                                      *)
(***************************************************************************)
EXTENDS PartialSVDOps
CONSTANTS MaxCalls, MaxConv, V_Invalidate
VARIABLES gen,        \* number of compute() calls so far (0 = none)
          nconv,      \* converged triplets of the most recent compute()
          cacheGen,   \* compute() generation whose eigenvectors are in the cache (0 = empty)
          cacheCols,  \* columns in the cache
          lastRead,   \* what the last matrix_U/V call returned: [gen, cols, k] ; gen = 0 when nothing was read yet
          calls
vars == <<gen, nconv, cacheGen, cacheCols, lastRead, calls>>

Init == gen = 0 /\ nconv = 0 /\ cacheGen = 0 /\ cacheCols = 0 /\ lastRead = [gen |-> 0, at |-> 0, nc |-> 0, cols |-> 0, k |-> 0, ok |-> TRUE] /\ calls = 0

\* the variables as one record: the transitions themselves are the SV_* operators of PartialSVDOps (shared with the
\* behaviour generator MC_SVDSeq and with TraceAux)
Rec == [gen |-> gen, nconv |-> nconv, cacheGen |-> cacheGen, cacheCols |-> cacheCols]
Becomes(t) == gen' = t.gen /\ nconv' = t.nconv /\ cacheGen' = t.cacheGen /\ cacheCols' = t.cacheCols

Compute(c) ==
    /\ calls < MaxCalls /\ c \in 0 .. MaxConv
    /\ Becomes(SV_Compute(Rec, c, V_Invalidate))
    /\ calls' = calls + 1 /\ UNCHANGED lastRead

\* matrix_U(k) / matrix_V(k): fill the cache if it is empty, then return leftCols(min(k, nconv)) of it;
\* taking more columns than the cache holds is an index error (ok = FALSE)
Read(k) ==
    /\ calls < MaxCalls /\ G_SV_Read(Rec) /\ k \in 0 .. MaxConv + 1
    /\ Becomes(SV_ReadState(Rec)) /\ lastRead' = SV_ReadResult(Rec, k)
    /\ calls' = calls + 1

Next == (\E c \in 0 .. MaxConv : Compute(c)) \/ (\E k \in 0 .. MaxConv + 1 : Read(k))
Spec == Init /\ [][Next]_vars

\* matrix_U(k) and matrix_V(k) always describe the most recent compute(), never read out of range, and return min(k, nconv) columns
\* (at = generation of the most recent compute() when the read happened, nc = its nconv)
CacheIsCurrent == lastRead.gen = lastRead.at
NoIndexError == lastRead.ok
ColsReturned == lastRead.at = 0 \/ lastRead.cols = Min(lastRead.k, lastRead.nc)
=============================================================================
