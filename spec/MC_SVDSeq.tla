------------------------------ MODULE MC_SVDSeq ------------------------------
(***************************************************************************)
(* Every sequence of public calls on one PartialSVDSolver up to MaxLen:     *)
(* compute with one of NArg argument sets (its outcome nconv is whatever    *)
(* the code produces: nondeterministic here), singular_values(),            *)
(* matrix_U(k), matrix_V(k) for k in Ks.  The design invariants hold on all *)
(* of them; tools/krygen.py exports the histories (TLC -dump) for           *)
(* harness/drv_aux.cpp (mode=svdseq), whose record TraceAux validates with  *)
(* the same SV_* operators.                                                 *)
(***************************************************************************)
EXTENDS PartialSVDOps, Sequences, TLC
CONSTANTS MaxLen, NArg, Ks, MaxConv, V_Invalidate
VARIABLES sv, hist, last
svars == <<sv, hist, last>>
NoRead == [gen |-> 0, at |-> 0, nc |-> 0, cols |-> 0, k |-> 0, ok |-> TRUE]
SInit == sv = SV_Fresh /\ hist = <<>> /\ last = NoRead
SCompute(a) == \E c \in 0 .. MaxConv :
    /\ sv' = SV_Compute(sv, c, V_Invalidate) /\ hist' = Append(hist, <<"C", a>>) /\ last' = last
SRead(who, k) ==
    /\ G_SV_Read(sv)
    /\ sv' = SV_ReadState(sv) /\ last' = SV_ReadResult(sv, k) /\ hist' = Append(hist, <<who, k>>)
SValues == G_SV_Read(sv) /\ hist' = Append(hist, <<"S">>) /\ UNCHANGED <<sv, last>>
SNext == Len(hist) < MaxLen /\ ((\E a \in 0 .. NArg - 1 : SCompute(a)) \/ (\E k \in Ks : SRead("U", k) \/ SRead("V", k)) \/ SValues)
SSpec == SInit /\ [][SNext]_svars
SeqCacheIsCurrent == last.gen = last.at
SeqNoIndexError == last.ok
SeqColsReturned == last.at = 0 \/ last.cols = Min(last.k, last.nc)
=============================================================================
