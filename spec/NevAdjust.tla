------------------------------ MODULE NevAdjust ------------------------------
(***************************************************************************)
(* Restart-size function nev_adjusted() of HermEigsBase.h / GenEigsBase.h   *)
(* and the index arithmetic of the general solver's shift loop, over Ritz   *)
(* value PATTERNS: tok[i] = 0 real, 1 complex with positive imaginary part, *)
(* 2 its conjugate; pid[i] = pair id (equal ids and opposite signs =        *)
(* conjugates).  Positions are 1-based here; the code is 0-based.           *)
(***************************************************************************)
EXTENDS Naturals, Integers, Sequences, TLC

Min(a, b) == IF a < b THEN a ELSE b

HermAdj(nev, ncv, nconv, z) ==
    LET a == nev + z
        b == a + Min(nconv, (ncv - a) \div 2)
        c == IF b = 1 /\ ncv >= 6 THEN ncv \div 2 ELSE IF b = 1 /\ ncv > 2 THEN 2 ELSE b
    IN IF c > ncv - 1 THEN ncv - 1 ELSE c

IsCplx(tok, i) == tok[i] # 0
IsConj(tok, pid, i, j) == tok[i] # 0 /\ tok[j] # 0 /\ pid[i] = pid[j] /\ tok[i] # tok[j]

GenAdj(nev, ncv, nconv, z, tok, pid) ==
    LET a == nev + z
        b == a + Min(nconv, (ncv - a) \div 2)
        c == IF b = 1 /\ ncv >= 6 THEN ncv \div 2 ELSE IF b = 1 /\ ncv > 3 THEN 2 ELSE b
        d == IF c > ncv - 2 THEN ncv - 2 ELSE c
    IN IF IsCplx(tok, d) /\ IsConj(tok, pid, d, d + 1) THEN d + 1 ELSE d     \* code: ritz[d-1], ritz[d]

\* The RELATION the properties need (C13): the restart keeps at least the wanted pairs and leaves at least one shift
RangeOK(nev, ncv, k) == k >= nev /\ k >= 1 /\ k <= ncv - 1

\* Shift loop of GenEigsBase::restart(k): i runs over 0-based positions k .. ncv-1.
\* guard = TRUE: the code checks i < ncv-1 before reading ritz[i+1] (after the fix); FALSE: it reads unconditionally.
\* Result: [ok |-> every index read is < ncv, fin |-> value of i when the loop ends, dbl |-> number of double shifts]
RECURSIVE ShiftLoop(_, _, _, _, _, _)
ShiftLoop(tok, pid, i, ncv, guard, dbl) ==
    IF i >= ncv THEN [ok |-> TRUE, fin |-> i, dbl |-> dbl]
    ELSE IF IsCplx(tok, i + 1)
         THEN IF i < ncv - 1
              THEN IF IsConj(tok, pid, i + 1, i + 2)
                   THEN ShiftLoop(tok, pid, i + 2, ncv, guard, dbl + 1)
                   ELSE ShiftLoop(tok, pid, i + 1, ncv, guard, dbl)
              ELSE IF guard THEN ShiftLoop(tok, pid, i + 1, ncv, guard, dbl)
                   ELSE [ok |-> FALSE, fin |-> i, dbl |-> dbl]            \* reads ritz[ncv]: out of range
         ELSE ShiftLoop(tok, pid, i + 1, ncv, guard, dbl)

\* after the loop the dimension is ncv - (ncv - k) = k exactly iff the loop ends at i = ncv
LoopSafe(tok, pid, k, ncv, guard) ==
    LET r == ShiftLoop(tok, pid, k, ncv, guard, 0) IN r.ok /\ r.fin = ncv
=============================================================================
