---------------------------- MODULE PartialSVDOps ----------------------------
(***************************************************************************)
(* The transitions of contrib/PartialSVDSolver.h as operators on a state    *)
(* record (no variables), shared by the design model PartialSVD, the        *)
(* behaviour generator MC_SVDSeq and the trace specification TraceAux.      *)
(***************************************************************************)
EXTENDS Naturals, Integers, FiniteSets
Min(a, b) == IF a < b THEN a ELSE b
\* (the type annotations in the comments below are for Apalache, see PartialSVDApa.tla; TLC ignores them)
\* @typeAlias: svstate = { gen: Int, nconv: Int, cacheGen: Int, cacheCols: Int };
\* @typeAlias: svread = { gen: Int, at: Int, nc: Int, cols: Int, k: Int, ok: Bool };
\* @type: $svstate;
SV_Fresh == [gen |-> 0, nconv |-> 0, cacheGen |-> 0, cacheCols |-> 0]
\* @type: ($svstate, Int, Bool) => $svstate;
SV_Compute(sv, c, invalidate) ==
    [sv EXCEPT !.gen = sv.gen + 1, !.nconv = c, !.cacheGen = IF invalidate THEN 0 ELSE sv.cacheGen, !.cacheCols = IF invalidate THEN 0 ELSE sv.cacheCols]
\* @type: $svstate => Bool;
G_SV_Read(sv) == sv.gen > 0
\* @type: $svstate => $svstate;
SV_ReadState(sv) == [sv EXCEPT !.cacheGen = IF sv.cacheGen = 0 THEN sv.gen ELSE sv.cacheGen, !.cacheCols = IF sv.cacheGen = 0 THEN sv.nconv ELSE sv.cacheCols]
\* @type: ($svstate, Int) => $svread;
SV_ReadResult(sv, k) ==
    LET t == SV_ReadState(sv) want == Min(k, sv.nconv) IN
    [gen |-> t.cacheGen, at |-> sv.gen, nc |-> sv.nconv, cols |-> Min(want, t.cacheCols), k |-> k, ok |-> want <= t.cacheCols]

=============================================================================
