----------------------------- MODULE ParkMiller -----------------------------
(***************************************************************************)
(* The minimal-standard generator x' = 16807 x mod (2^31 - 1) in 32-bit     *)
(* TLC integers: multiplication by binary double-and-add so that no         *)
(* intermediate exceeds 2^31 - 1.  Deliberately NOT Schrage's method and    *)
(* NOT the hi/lo folding of Util/SimpleRandom.h: an independent definition. *)
(***************************************************************************)
EXTENDS Naturals, Integers, Sequences, TLC

M == 2147483647
A == 16807

AddMod(a, b) == IF a >= M - b THEN a - (M - b) ELSE a + b

\* TLC evaluates LET definitions and operator arguments lazily; nested recursion would pile up unevaluated
\* thunks (stack overflow).  Force(v) evaluates v here and now.
Force(v) == CHOOSE x \in {v} : TRUE

RECURSIVE MulMod(_, _)
\* a in 0..M-1, b >= 0
MulMod(a, b) ==
    IF b = 0 THEN 0
    ELSE LET h == Force(MulMod(a, b \div 2))
             d == Force(AddMod(h, h))
         IN IF b % 2 = 1 THEN AddMod(d, a) ELSE d

Next(s) == MulMod(s, A)

RECURSIVE PowMod(_, _)
PowMod(a, e) ==
    IF e = 0 THEN 1
    ELSE LET h == Force(PowMod(a, e \div 2))
             sq == Force(MulMod(h, h))
         IN IF e % 2 = 1 THEN MulMod(sq, a) ELSE sq

\* seed normalisation of SimpleRandom's constructor: 0 -> 1, otherwise seed & (2^31 - 1); every seed the library uses is < 2^31
NormSeed(seed) == IF seed = 0 THEN 1 ELSE seed

\* M - 1 = 2 * 3^2 * 7 * 11 * 31 * 151 * 331
PrimeFactorsOfMminus1 == {2, 3, 7, 11, 31, 151, 331}
Factorisation == 2 * 3 * 3 * 7 * 11 * 31 * 151 * 331 = M - 1
\* 16807 is a primitive root modulo the prime M: the state graph on 1..M-1 is ONE cycle of length M - 1
PrimitiveRoot == PowMod(A, M - 1) = 1 /\ \A p \in PrimeFactorsOfMminus1 : PowMod(A, (M - 1) \div p) # 1

\* Schrage's decomposition as a refinement: q = M div A, r = M mod A
SchrageQ == 127773
SchrageR == 2836
Schrage(s) ==
    LET hi == s \div SchrageQ
        lo == s % SchrageQ
        t == A * lo - SchrageR * hi
    IN IF t > 0 THEN t ELSE t + M
=============================================================================
