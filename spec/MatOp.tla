-------------------------------- MODULE MatOp --------------------------------
(***************************************************************************)
(* The built-in matrix-operation wrappers (C11): the finite configuration   *)
(* space of their template options, and the EXACT integer semantics of the  *)
(* product wrappers: for integer matrices and vectors every product is      *)
(* exactly representable, so the specification computes Sym(A, uplo) x and  *)
(* A x itself and the implementation must agree bit for bit, whatever is    *)
(* stored in the triangle the wrapper was told not to read.                 *)
(***************************************************************************)
EXTENDS Naturals, Integers, Sequences, FiniteSets, TraceLib

\* matrices arrive column by column: a[(j-1)*n + i] = A(i, j)
At(n, a, i, j) == a[(j - 1) * n + i]
RECURSIVE SumTo(_, _)
SumTo(f, k) == IF k = 0 THEN 0 ELSE f[k] + SumTo(f, k - 1)
MatVec(n, a, x) == [i \in 1 .. n |-> SumTo([j \in 1 .. n |-> At(n, a, i, j) * x[j]], n)]
\* Hermitian A = S + iK (S symmetric, K skew-symmetric integer), real x: Re(Ax) = S x, Im(Ax) = K x

\* ---- configuration space -------------------------------------------------------------------------------------------
\* product wrappers: (wrapper, uplo, rowmajor, storage index, scalar type)
ProdConfigs ==
    {<<"DenseSymMatProd", u, r, "-", t>> : u \in {0, 1}, r \in {0, 1}, t \in {1, 2, 3}}
    \cup {<<"DenseGenMatProd", 0, r, "-", t>> : r \in {0, 1}, t \in {1, 2, 3}}
    \cup {<<"SparseSymMatProd", u, r, si, 2>> : u \in {0, 1}, r \in {0, 1}, si \in {"int", "long"}}
    \cup {<<"SparseSymMatProd", u, r, "int", t>> : u \in {0, 1}, r \in {0, 1}, t \in {1, 3}}
    \cup {<<"SparseGenMatProd", 0, r, si, 2>> : r \in {0, 1}, si \in {"int", "long"}}
    \cup {<<"SparseGenMatProd", 0, r, "int", t>> : r \in {0, 1}, t \in {1, 3}}
    \cup {<<"SparseRegularInverse", u, r, si, 2>> : u \in {0, 1}, r \in {0, 1}, si \in {"int", "long"}}
HermConfigs == {<<w, u, r>> : w \in {"DenseHermMatProd", "SparseHermMatProd"}, u \in {0, 1}, r \in {0, 1}}
\* solve wrappers
SolveConfigs ==
    {<<"DenseSymShiftSolve", u, r, "-", t>> : u \in {0, 1}, r \in {0, 1}, t \in {1, 2, 3}}
    \cup {<<"DenseGenRealShiftSolve", 0, r, "-", t>> : r \in {0, 1}, t \in {1, 2, 3}}
    \cup {<<"DenseGenComplexShiftSolve", 0, r, "-", t>> : r \in {0, 1}, t \in {1, 2, 3}}
    \cup {<<"DenseCholesky", u, r, "-", t>> : u \in {0, 1}, r \in {0, 1}, t \in {1, 2, 3}}
    \cup {<<"SparseSymShiftSolve", u, r, si, 2>> : u \in {0, 1}, r \in {0, 1}, si \in {"int", "long"}}
    \cup {<<"SparseGenRealShiftSolve", 0, r, si, 2>> : r \in {0, 1}, si \in {"int", "long"}}
    \cup {<<"SparseGenComplexShiftSolve", 0, r, si, 2>> : r \in {0, 1}, si \in {"int", "long"}}
    \cup {<<"SparseCholesky", u, r, si, 2>> : u \in {0, 1}, r \in {0, 1}, si \in {"int", "long"}}
    \cup {<<"SparseRegularInverse", u, r, si, 2>> : u \in {0, 1}, r \in {0, 1}, si \in {"int", "long"}}
\* the two-matrix shift-invert wrapper: 64 combinations, named by a six-letter code (A d/s, B d/s, UploA l/u, UploB l/u, FlagsA c/r, FlagsB c/r)
SSIConfigs == {<<a, b, ua, ub, fa, fb>> : a \in {"d", "s"}, b \in {"d", "s"}, ua \in {"l", "u"}, ub \in {"l", "u"}, fa \in {"c", "r"}, fb \in {"c", "r"}}
Composites == {"SymGEigsShiftInvertOp", "SymGEigsBucklingOp", "SymGEigsCayleyOp", "SymGEigsCholeskyOp", "SymGEigsRegInvOp"}

\* ---- acceptance of a measured solve: residual of the defining equation, conditioning of the factorized matrix ---------
QC_MO == 128
SolveOK(ty, qn, qres, qscale, qcond) == QLe(qres, QC_MO + qn + QEPS(ty) + qscale + qcond)
=============================================================================
