----------------------------- MODULE IRPublic -----------------------------
(***************************************************************************)
(* The implicitly restarted solvers of yixuan/spectra at the granularity    *)
(* of PUBLIC calls: what a caller can rely on between calls, with every     *)
(* internal step of IRSolver.tla hidden.                                    *)
(*                                                                          *)
(* Public state p (one record):                                             *)
(*   nev, ncv  constructor arguments                                        *)
(*   k         dimension of the Krylov factorization the object holds       *)
(*             (0: never initialised; not an accessor, but it decides what  *)
(*             the next compute() does, so the contract needs it)           *)
(*   fac       "none" (k = 0) | "ok" (a Krylov factorization by             *)
(*             construction) | "bad" (a fault interrupted an update)        *)
(*   inited    a successful init() completed and no fault since             *)
(*   ncomp     compute() calls started since the last init()                *)
(*   info, count, niter, ops    info(), eigenvalues().size(),               *)
(*             num_iterations(), num_operations()                           *)
(*   exc       how the last call ended: none | invalid | fault              *)
(*                                                                          *)
(* PubStep(p, call, kind, mx, q): the big-step relation of one public call  *)
(*   call = "init"    kind = "ok" (nonzero vector) | "zero"                 *)
(*   call = "compute" kind = "ok" | "badsel" (unsupported selection rule)   *)
(*                         | "badsort" (supported selection, unsupported    *)
(*                           sorting rule)                                  *)
(* with the user's operator allowed to throw inside any call.               *)
(*                                                                          *)
(* Used three ways: MC_IRPub checks with TLC that IRSolver.tla REFINES this *)
(* relation (every return to "idle" of the fine-grained model is one        *)
(* PubStep of the projected state); MC_IRPub also generates every public    *)
(* history up to a length bound for the harness; TraceIR.tla tracks p from  *)
(* the harness lines ALONE (Call / Ret / Threw / Obs - no hook event) and   *)
(* judges every observed call against PubStep (the Pub rules).               *)
(***************************************************************************)
EXTENDS Naturals, Integers

PFresh(nev, ncv) ==
    [nev |-> nev, ncv |-> ncv, k |-> 0, fac |-> "none", inited |-> FALSE, ncomp |-> 0,
     info |-> "NotComputed", count |-> 0, niter |-> 0, ops |-> 0, exc |-> "none"]

PInfoOf(p, c) == IF c >= p.nev THEN "Successful" ELSE "NotConverging"

\* ---- init(v) -------------------------------------------------------------------------------
\* everything the iteration reads is rebuilt; info() keeps the status of the last completed compute()
PInitOk(p, q) ==
    q = [p EXCEPT !.k = 1, !.fac = "ok", !.inited = TRUE, !.ncomp = 0, !.count = 0, !.niter = 0, !.ops = 2, !.exc = "none"]
\* init(0): rejected; the Ritz data and counters are reset, the factorization is left as it was
PInitZero(p, q) ==
    q = [p EXCEPT !.inited = FALSE, !.ncomp = 0, !.count = 0, !.niter = 0, !.ops = 0, !.exc = "invalid"]
\* the operator throws during one of the two applications of init()
PInitFault(p, q) ==
    \E o \in 0 .. 2 :
        q = [p EXCEPT !.inited = FALSE, !.ncomp = 0, !.count = 0, !.niter = 0, !.ops = o, !.exc = "fault",
                      !.fac = IF p.k = 0 THEN "none" ELSE "bad"]

\* ---- compute(selection, maxit, tol, sorting) ---------------------------------------------------
\* operator applications of a compute() that performs r restarts from dimension k: one or two per new column
\* (two when the sequence breaks down and is continued with a fresh direction), ncv - k columns at first and
\* between 1 and ncv - 1 columns after every restart
\* (after a fault the dimension the object was left at is not part of the contract: any 1 <= k <= ncv)
OpsLo(p, r) == IF p.fac = "bad" THEN r ELSE (p.ncv - p.k) + r
OpsHi(p, r) == IF p.fac = "bad" THEN 2 * (p.ncv - 1) * (r + 1) ELSE 2 * (p.ncv - p.k) + 2 * r * (p.ncv - 1)

\* never initialised: the from_k guard of the factorization rejects the call; nothing else changes
PComputeNoFac(p, q) == p.fac = "none" /\ q = [p EXCEPT !.ncomp = @ + 1, !.exc = "invalid"]

\* normal return: c converged pairs after r restarts.  The loop leaves early only on convergence.
PComputeRetWith(p, mx, c, r, w, q) ==
    /\ p.fac # "none" /\ c \in 0 .. p.nev /\ r \in 0 .. mx /\ (r < mx => c = p.nev)
    /\ w >= OpsLo(p, r) /\ w <= OpsHi(p, r)
    /\ q = [p EXCEPT !.k = p.ncv, !.count = c, !.info = PInfoOf(p, c), !.niter = @ + r + 1, !.ops = @ + w,
                     !.ncomp = @ + 1, !.exc = "none"]
PComputeRet(p, mx, q) ==
    /\ p.fac # "none" /\ q.count \in 0 .. p.nev
    /\ \E r \in 0 .. mx : PComputeRetWith(p, mx, q.count, r, q.ops - p.ops, q)

\* unsupported selection rule: rejected by the first Ritz-pair retrieval, i.e. AFTER the factorization was extended to ncv
\* columns; status, count and iteration counter are those of the previous call
PComputeBadSel(p, q) ==
    /\ p.fac # "none"
    /\ q.ops - p.ops >= OpsLo(p, 0) /\ q.ops - p.ops <= OpsHi(p, 0)
    /\ q = [p EXCEPT !.k = p.ncv, !.ops = q.ops, !.ncomp = @ + 1, !.exc = "invalid"]

\* unsupported sorting rule with a supported selection rule: rejected by the final sort, i.e. after the whole iteration ran;
\* the convergence flags are those of the iteration, status and iteration counter are not updated
PComputeBadSort(p, mx, q) ==
    /\ p.fac # "none" /\ q.count \in 0 .. p.nev
    /\ \E r \in 0 .. mx :
          /\ (r < mx => q.count = p.nev)
          /\ q.ops - p.ops >= OpsLo(p, r) /\ q.ops - p.ops <= OpsHi(p, r)
    /\ q = [p EXCEPT !.k = p.ncv, !.count = q.count, !.ops = q.ops, !.ncomp = @ + 1, !.exc = "invalid"]

\* the operator throws somewhere inside compute(): the object stays a valid object (C14), the factorization is
\* not to be trusted until the next init(); at most the work bound was spent
PComputeFault(p, mx, q) ==
    /\ p.fac # "none" /\ q.count \in 0 .. p.nev /\ q.k \in 1 .. p.ncv
    /\ q.ops >= p.ops /\ q.ops - p.ops <= 2 * p.ncv * (mx + 1)
    /\ q = [p EXCEPT !.k = q.k, !.fac = "bad", !.inited = FALSE, !.count = q.count, !.ops = q.ops, !.ncomp = @ + 1, !.exc = "fault"]

\* ---- one public call -------------------------------------------------------------------------
\* how = "ret" | "invalid" | "fault": the way the call ended as the caller saw it
PubStep(p, call, kind, mx, how, q) ==
    CASE call = "init" /\ kind = "ok" /\ how = "ret" -> PInitOk(p, q)
      [] call = "init" /\ kind = "zero" /\ how = "invalid" -> PInitZero(p, q)
      [] call = "init" /\ kind = "ok" /\ how = "fault" -> PInitFault(p, q)
      [] call = "compute" /\ how = "invalid" /\ p.fac = "none" -> PComputeNoFac(p, q)
      [] call = "compute" /\ kind = "ok" /\ how = "ret" -> PComputeRet(p, mx, q)
      [] call = "compute" /\ kind = "badsel" /\ how = "invalid" /\ p.fac # "none" -> PComputeBadSel(p, q)
      [] call = "compute" /\ kind = "badsort" /\ how = "invalid" /\ p.fac # "none" -> PComputeBadSort(p, mx, q)
      [] call = "compute" /\ how = "fault" -> PComputeFault(p, mx, q)
      [] OTHER -> FALSE     \* e.g. a supported call that is rejected, an unsupported rule that is accepted, init(0) that returns

\* ---- what the caller can rely on between calls (C05, C06, C13 at the public level) --------------
PTypeOK(p) ==
    /\ p.k \in 0 .. p.ncv /\ p.fac \in {"none", "ok", "bad"} /\ p.count \in 0 .. p.nev
    /\ p.info \in {"NotComputed", "Successful", "NotConverging"} /\ p.exc \in {"none", "invalid", "fault"}
    /\ (p.fac = "none") = (p.k = 0)
\* before any compute() call on the object: NotComputed and nothing returned (a compute() that was rejected by the final sort
\* has run the iteration: it leaves convergence flags behind although the status is still NotComputed)
PNotComputedBefore(p, started) == started = 0 => (p.info = "NotComputed" /\ p.count = 0)
\* the status names the count - after a compute() that RETURNED (a rejected or faulted call leaves the old status)
PStatusIffAll(p) == (p.exc = "none" /\ p.ncomp > 0) => ((p.info = "Successful") = (p.count = p.nev))
\* a successful init() leaves exactly the state of a fresh object after init(), whatever happened before
PInitMakesFresh(p) ==
    (p.inited /\ p.ncomp = 0) => (p.k = 1 /\ p.fac = "ok" /\ p.ops = 2 /\ p.niter = 0 /\ p.count = 0)
=============================================================================
