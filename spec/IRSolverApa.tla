----------------------------- MODULE IRSolverApa -----------------------------
(***************************************************************************)
(* Unbounded obligation for C13 (and the counting clauses of C05),          *)
(* discharged by Apalache (SMT): the work bound of compute(),               *)
(*     trueOps - ops0 <= 2 * ncv * (maxit + 1),                             *)
(* the dimension/shift ranges and the counter agreement are INDUCTIVE for   *)
(* EVERY (nev, ncv), every maxit >= 0 and any number of public calls, with  *)
(* faults and rejected calls - TLC checks them for four (nev, ncv) and      *)
(* maxit <= 2 only.  The transitions are the G_X / U_X operators of         *)
(* IRSolver.tla themselves (EXTENDS, no copy); only the quantification over *)
(* the finite design constants (Configs, MaxIt, MaxCalls) is replaced by    *)
(* unbounded integers here.  MC_IR checks with TLC that every step of       *)
(* IRSolver!Next is a step of ApaNext (PROPERTY StepsAreApaSteps).          *)
(*                                                                          *)
(* The invariant needs the accounting behind the bound: each factorization  *)
(* round extends from ktarget >= 1 to ncv with at most two applications per *)
(* column; rounds = 1 + restarts, restarts <= maxit.                        *)
(***************************************************************************)
EXTENDS IRSolver

ConstInit ==
    /\ Configs = {[gen |-> TRUE, nev |-> 1, ncv |-> 3]} /\ MaxIt = {0} /\ MaxCalls = 1      \* unused by ApaInit / ApaNext
    /\ V_Refresh = TRUE /\ V_Resume = TRUE /\ V_Faults = TRUE /\ V_InitCheckFirst = TRUE   \* the code as it is

\* any legal configuration: 1 <= nev < ncv (the general solvers need ncv >= nev + 2: a subset)
ApaInit == \E g \in BOOLEAN : \E nv \in Int : \E nc \in Int :
               /\ nv >= 1 /\ nc > nv
               /\ s = Fresh([gen |-> g, nev |-> nv, ncv |-> nc])

\* the three actions whose arguments IRSolver!Next draws from the finite design constants; here from any set (Int for Apalache, a finite
\* superset of the design constants for the TLC refinement check in MC_IRApa)
ApaComputeBeginIn(MX) == \E mx \in MX : mx >= 0 /\ G_ComputeBegin(s, mx) /\ s' = U_ComputeBegin(s, mx)
ApaNumConvIn(CS) == \E c \in CS : c >= 0 /\ c <= s.nev /\ G_NumConv(s, c) /\ s' = U_NumConv(s, c)
ApaNevAdjIn(KS) == \E kk \in KS : kk >= 1 /\ kk <= s.ncv - 1 /\ G_NevAdj(s, s.nconv, kk) /\ s' = U_NevAdj(s, s.nconv, kk)
ApaNextIn(MX, CS, KS) ==
    \/ InitZero \/ FacInit \/ InitEnd
    \/ FacNoop \/ FacThrow \/ FacBegin \/ FacStep \/ FacDone \/ Retrieve \/ RestartEnd
    \/ ApaNumConvIn(CS) \/ SkipRefresh \/ ApaNevAdjIn(KS) \/ RestartBegin \/ ShiftStep \/ CompressV
    \/ SortBegin \/ SortEnd \/ ComputeEnd \/ OpThrows \/ RetrieveThrow \/ SortThrow
    \/ InitBegin \/ ApaComputeBeginIn(MX)
ApaNext == ApaNextIn(Int, Int, Int)

\* ---- the accounting ---------------------------------------------------------------------------------------
\* @type: ($irs) => Bool;
InCompute(st) == st.pc \notin {"idle", "init"}
\* factorization rounds completed since ComputeBegin
\* @type: ($irs) => Int;
Rounds(st) ==
    IF st.pc = "c_fac" THEN (IF st.spos = 0 THEN 0 ELSE st.restarts + 1)
    ELSE IF st.pc \in {"c_retr", "c_rend"} THEN (IF st.spos = 0 THEN 1 ELSE st.restarts + 2)
    ELSE st.restarts + 1
\* applications of the round in progress: at most two per column produced so far, the first column produced is ktarget + 1 >= 2
\* @type: ($irs) => Int;
InProgress(st) == IF st.fnext # 0 THEN 2 * (st.fnext - 2) ELSE 0
\* @type: ($irs) => Int;
Work(st) == st.trueOps - st.ops0

IndInv ==
    /\ TypeOKs(s)
    /\ s.nev >= 1 /\ s.ncv > s.nev /\ s.maxit >= 0 /\ s.restarts >= 0 /\ s.ops >= 0 /\ s.trueOps >= 0 /\ s.ops0 >= 0 /\ s.spos >= 0
    /\ s.ktarget >= 0 /\ s.ktarget <= s.ncv
    /\ P_OpsCounted(s) /\ P_RestartsBounded(s) /\ P_KInRange(s) /\ P_ShiftInRange(s) /\ P_WorkBound(s)
    \* inside factorize_from: columns ktarget+1 .. ncv are being produced
    /\ (s.fnext # 0 => (s.pc = "c_fac" /\ s.fto = s.ncv /\ s.fnext >= 2 /\ s.fnext <= s.ncv + 1 /\ s.ktarget >= 1))
    /\ (s.fnext = 0 => s.fto = 0)
    /\ (~InCompute(s) => s.fnext = 0)
    \* the restart phases: spos # 0 exactly from RestartBegin to RestartEnd, and a restart is only started while the loop is running
    /\ (s.pc \in {"c_shift", "c_rend"} => s.spos # 0)
    /\ (s.pc \in {"c_test", "c_adj", "c_rst", "c_sort", "c_sorting", "c_end"} => s.spos = 0)
    /\ (s.spos # 0 /\ InCompute(s) => s.restarts < s.maxit)
    /\ (s.pc \in {"c_adj", "c_rst"} => s.restarts < s.maxit)
    /\ (s.pc \in {"c_rst", "c_shift"} => s.ktarget >= 1 /\ s.ktarget <= s.ncv - 1)
    /\ (s.pc = "c_fac" /\ s.spos # 0 => s.ktarget >= 1)
    /\ (s.pc = "c_fac" /\ s.spos = 0 => s.ktarget >= 1 /\ s.restarts = 0)
    /\ (s.pc = "c_retr" /\ s.spos = 0 => s.restarts = 0)
    /\ (s.facOK => s.k >= 1 /\ s.k <= s.ncv)
    /\ (s.pc = "init" /\ s.facpre => s.k >= 1 /\ s.k <= s.ncv)
    \* the dimension: full after every retrieve; inside the shift loop every shift lowers k by the amount it advances spos
    /\ (s.pc \in {"c_test", "c_adj", "c_rst", "c_rend", "c_sort", "c_sorting", "c_end"} => s.k = s.ncv)
    /\ (s.pc = "c_shift" => s.k + s.spos = s.ncv + s.ktarget /\ s.spos >= s.ktarget)
    /\ (s.pc = "c_fac" /\ s.spos # 0 /\ s.fnext = 0 => s.k = s.ktarget)
    \* the work done so far in this compute()
    /\ (InCompute(s) => Work(s) >= 0 /\ Work(s) <= 2 * (s.ncv - 1) * Rounds(s) + InProgress(s))
    /\ (InCompute(s) => s.ops0 <= s.trueOps)

IndInit ==
    /\ s \in [gen : BOOLEAN, nev : Int, ncv : Int, pc : PCs, k : Int, fnext : Int, fto : Int, ops : Int, niter : Int,
              info : {"NotComputed", "Successful", "NotConverging"}, flags : Int, nconv : Int, restarts : Int, maxit : Int, ktarget : Int,
              spos : Int, trueOps : Int, ops0 : Int, ritzGen : Int, convGen : Int, facOK : BOOLEAN, facpre : BOOLEAN, misuse : BOOLEAN,
              inited : BOOLEAN, ncomp : Int, probing : BOOLEAN, calls : Int, exc : {"none", "invalid", "fault"}]
    /\ IndInv

\* negative control: a bound with one application per column only is NOT inductive (breakdown steps cost two)
TooStrong == IndInv /\ (InCompute(s) => Work(s) <= (s.ncv - 1) * Rounds(s) + InProgress(s))
TooStrongInit ==
    /\ s \in [gen : BOOLEAN, nev : Int, ncv : Int, pc : PCs, k : Int, fnext : Int, fto : Int, ops : Int, niter : Int,
              info : {"NotComputed", "Successful", "NotConverging"}, flags : Int, nconv : Int, restarts : Int, maxit : Int, ktarget : Int,
              spos : Int, trueOps : Int, ops0 : Int, ritzGen : Int, convGen : Int, facOK : BOOLEAN, facpre : BOOLEAN, misuse : BOOLEAN,
              inited : BOOLEAN, ncomp : Int, probing : BOOLEAN, calls : Int, exc : {"none", "invalid", "fault"}]
    /\ TooStrong
=============================================================================
