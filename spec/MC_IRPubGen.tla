----------------------------- MODULE MC_IRPubGen -----------------------------
(***************************************************************************)
(* Behaviour generator: every sequence of public calls on the implicitly    *)
(* restarted solvers up to MaxLen, over the call alphabet of IRPublic.tla   *)
(*   N  (a new object)    I / V1 / V2 (init with the default / a user       *)
(*   start vector)   Z (init(0))   C0 / C1 (compute, supported rules, two   *)
(*   argument sets)   C2 (unsupported selection)  C3 (unsupported sorting)  *)
(*   F1 (the user's operator will throw at its next application)            *)
(* The outcome of a call (how many pairs converge, after how many restarts, *)
(* at what cost) is whatever the code produces - nondeterministic here,     *)
(* explored for the extreme outcomes.  The public invariants are checked on *)
(* every state; tools/krygen.py exports the histories (TLC -dump), the IR   *)
(* drivers execute each one on the real solver classes between two          *)
(* observed init(v); compute(args) pairs, and TraceIR.tla validates the     *)
(* record: hook events against IRSolver.tla, the harness lines against      *)
(* IRPublic.tla, and the digests of the observed pairs (C06).               *)
(***************************************************************************)
EXTENDS Naturals, Integers, Sequences, TLC
CONSTANTS Nev, Ncv, MaxLen, MxOf    \* MxOf: maxit of argument sets 0 .. 3 (a function)
VARIABLES p, hist, armed, started
Pub == INSTANCE IRPublic
gvars == <<p, hist, armed, started>>

GInit == p = Pub!PFresh(Nev, Ncv) /\ hist = <<>> /\ armed = FALSE /\ started = 0

Tok(t) == hist' = Append(hist, t)

GNew == p' = Pub!PFresh(Nev, Ncv) /\ Tok(<<"N">>) /\ started' = 0 /\ UNCHANGED armed

\* init with a nonzero vector applies the operator twice: an armed fault strikes
GInitV(t) ==
    /\ Tok(t) /\ UNCHANGED started
    /\ IF armed THEN (\E q \in {[p EXCEPT !.inited = FALSE, !.ncomp = 0, !.count = 0, !.niter = 0, !.ops = 0, !.exc = "fault",
                                          !.fac = IF p.k = 0 THEN "none" ELSE "bad"]} : Pub!PInitFault(p, q) /\ p' = q) /\ armed' = FALSE
       ELSE (\E q \in {[p EXCEPT !.k = 1, !.fac = "ok", !.inited = TRUE, !.ncomp = 0, !.count = 0, !.niter = 0, !.ops = 2, !.exc = "none"]} :
                 Pub!PInitOk(p, q) /\ p' = q) /\ armed' = armed
GInitZero ==
    /\ Tok(<<"Z">>) /\ UNCHANGED <<started, armed>>
    /\ \E q \in {[p EXCEPT !.inited = FALSE, !.ncomp = 0, !.count = 0, !.niter = 0, !.ops = 0, !.exc = "invalid"]} : Pub!PInitZero(p, q) /\ p' = q

Kind(a) == CASE a = 2 -> "badsel" [] a = 3 -> "badsort" [] OTHER -> "ok"
\* representative outcomes: nothing / everything converged, no / all restarts, cheapest run
Outcomes(a) ==
    LET mx == MxOf[a + 1] IN
    {[p EXCEPT !.k = p.ncv, !.count = c, !.info = IF Kind(a) = "ok" THEN Pub!PInfoOf(p, c) ELSE p.info,
               !.niter = IF Kind(a) = "ok" THEN p.niter + r + 1 ELSE p.niter,
               !.ops = p.ops + Pub!OpsLo(p, r), !.ncomp = p.ncomp + 1, !.exc = IF Kind(a) = "ok" THEN "none" ELSE "invalid"]
        : c \in {0, p.nev}, r \in {0, mx}}
\* a compute() on an object whose last init() or compute() was interrupted by a fault, without a new init(), is outside the domain of
\* every property (the caller was told by the exception): such histories are not generated
GCompute(a) ==
    /\ p.fac # "bad"
    /\ Tok(<<"C", a>>) /\ started' = started + 1
    /\ IF p.fac = "none" THEN (\E q \in {[p EXCEPT !.ncomp = p.ncomp + 1, !.exc = "invalid"]} : Pub!PComputeNoFac(p, q) /\ p' = q) /\ armed' = armed
       ELSE \/ /\ \E q \in Outcomes(a) :
                     /\ CASE Kind(a) = "ok" -> Pub!PComputeRet(p, MxOf[a + 1], q)
                          [] Kind(a) = "badsel" -> Pub!PComputeBadSel(p, [q EXCEPT !.count = p.count]) /\ q.count = p.count
                          [] OTHER -> Pub!PComputeBadSort(p, MxOf[a + 1], q)
                     /\ p' = q
               \* an armed fault strikes unless this compute() applies the operator not at all (factorization already complete and converged)
               /\ (~armed \/ p.k = p.ncv) /\ armed' = armed
            \/ /\ armed /\ armed' = FALSE
               /\ \E q \in {[p EXCEPT !.fac = "bad", !.inited = FALSE, !.ncomp = p.ncomp + 1, !.exc = "fault", !.k = IF p.k = 0 THEN 1 ELSE p.k]} :
                     Pub!PComputeFault(p, MxOf[a + 1], q) /\ p' = q
GArm == ~armed /\ armed' = TRUE /\ Tok(<<"F", 1>>) /\ UNCHANGED <<p, started>>

GNext == Len(hist) < MaxLen /\
         (GNew \/ GInitV(<<"I">>) \/ GInitV(<<"V", 1>>) \/ GInitV(<<"V", 2>>) \/ GInitZero \/ (\E a \in 0 .. 3 : GCompute(a)) \/ GArm)
GSpec == GInit /\ [][GNext]_gvars

GenTypeOK == Pub!PTypeOK(p)
GenStatusIffAll == Pub!PStatusIffAll(p)
GenInitMakesFresh == Pub!PInitMakesFresh(p)
GenNotComputedBefore == Pub!PNotComputedBefore(p, started)
MC_MxOf == <<2, 0, 1, 2>>
=============================================================================
