----------------------------- MODULE MC_NevAdj -----------------------------
(***************************************************************************)
(* Exhaustive check of the restart-size function and the shift-loop index   *)
(* arithmetic over ALL arrangements of Ritz-value tokens {R, P1, M1, P2, M2} *)
(* (patterns are built constructively, token by token) and all              *)
(* (nev, ncv, nconv, z) for ncv <= MaxNcv; and of the Hermitian variant for *)
(* ncv <= 14.  Guard = FALSE is the design before the bound check was added *)
(* to the shift loop (negative control: TLC must find the out-of-range      *)
(* read).                                                                   *)
(***************************************************************************)
EXTENDS NevAdjust, FiniteSets
CONSTANTS MaxNcv, Guard
VARIABLES ncv, tok, pid

Letters == {<<0, 0>>, <<1, 1>>, <<2, 1>>, <<1, 2>>, <<2, 2>>}

MCInit == ncv \in 3 .. MaxNcv /\ tok = <<>> /\ pid = <<>>
Extend == Len(tok) < ncv /\ \E lt \in Letters : tok' = Append(tok, lt[1]) /\ pid' = Append(pid, lt[2]) /\ UNCHANGED ncv
MCNext == Extend
MCSpec == MCInit /\ [][MCNext]_<<ncv, tok, pid>>

Complete == Len(tok) = ncv
GenInv ==
    Complete =>
        \A nev \in 1 .. ncv - 2 : \A nconv \in 0 .. nev : \A z \in 0 .. ncv - nev :
            LET k == GenAdj(nev, ncv, nconv, z, tok, pid) IN
            /\ RangeOK(nev, ncv, k)
            /\ LoopSafe(tok, pid, k, ncv, Guard)
\* the loop is safe from EVERY admissible restart size, not only from the one the formula returns
AnyKInv == Complete => \A k \in 1 .. ncv - 1 : LoopSafe(tok, pid, k, ncv, Guard)
HermInv ==
    (Len(tok) = 0) =>
        \A n2 \in 2 .. 14 : \A nev \in 1 .. n2 - 1 : \A nconv \in 0 .. nev : \A z \in 0 .. n2 - nev :
            RangeOK(nev, n2, HermAdj(nev, n2, nconv, z))
=============================================================================
