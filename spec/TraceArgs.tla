------------------------------ MODULE TraceArgs ------------------------------
(***************************************************************************)
(* C12: every row of the exhaustive argument tables produced by             *)
(* harness/drv_args.cpp is checked against ArgCheck.tla: valid arguments    *)
(* accepted, invalid ones rejected with std::invalid_argument, no live heap *)
(* block left behind by a rejected call; domain completeness by counting.   *)
(***************************************************************************)
EXTENDS Naturals, Integers, Sequences, FiniteSets, TLC, Json, IOUtils, ArgCheck

VARIABLES l, mon, cov
Tr == ndJsonDeserialize(IOEnv.TRACE)
OutFile == IOEnv.OUT
CovKeys == {"rows", "ctor_rows", "ctor_valid", "ctor_invalid", "svd_rows", "svd_valid", "shape_rows", "shape_square", "sigma_rows",
            "init_rows", "rule_rows", "rule_valid", "after_rows", "classes"}
Bump(c, key, by) == [c EXCEPT ![key] = @ + by]
RunOf(k) == Cardinality({i \in 1 .. k : Tr[i].e = "Reset"})
Hit(rule, e) == [r |-> rule, run |-> RunOf(l), l |-> l]
If(c, rule, e) == IF c THEN {} ELSE {Hit(rule, e)}
AddHits(m, new) == IF Cardinality(m) > 300 THEN m ELSE m \cup new

\* outcome as required, and a rejected (or accepted-then-destroyed) call leaves no live allocation behind
Judge(e, valid, name) ==
    If(e.out = Required(valid), IF valid THEN "AcceptsValid:" \o name ELSE "RejectsInvalid:" \o name, e)
    \cup If(e.leak = 0, "NoLeak:" \o name, e)

RowHits(e) ==
    CASE e.e = "Ctor" -> Judge(e, CtorOK(e.fam, e.n, e.nev, e.ncv), "ctor")
      [] e.e = "Svd" -> Judge(e, SvdOK(e.m, e.n, e.ncomp, e.ncv), "svd")
      [] e.e = "Shape" -> Judge(e, ShapeOK(e.r, e.c), "shape")
      [] e.e = "Sigma" -> Judge(e, e.zero = 0, "sigma")
      \* init() resizes members of the (surviving) solver object, so the heap delta of the call itself is not a leak measure
      [] e.e = "Init" -> If(e.out = Required(e.zero = 0), IF e.zero = 0 THEN "AcceptsValid:init" ELSE "RejectsInvalid:init", e)
      \* compute() resizes/permutes members of the surviving solver object: only the outcome is judged
      [] e.e = "Rule" -> If(e.out = Required(RuleOK(e.gen, e.role, e.rule)), IF RuleOK(e.gen, e.role, e.rule) THEN "AcceptsValid:rule" ELSE "RejectsInvalid:rule", e)
      [] e.e = "AfterRule" -> If(e.out = 0, "UsableAfterRejection", e)
      [] e.e \in {"Reset", "EndArgs"} -> {}
      [] e.e = "OutOfRange" -> {Hit("OutOfRange", e)}
      [] OTHER -> {Hit("UnknownRow", e)}

TrInit == l = 1 /\ mon = {} /\ cov = [key \in CovKeys |-> 0]
TrStep ==
    /\ l <= Len(Tr)
    /\ LET e == Tr[l] IN
        /\ mon' = AddHits(mon, RowHits(e))
        /\ cov' = LET c0 == Bump(cov, "rows", 1) IN
                  CASE e.e = "Ctor" -> Bump(Bump(c0, "ctor_rows", 1), IF CtorOK(e.fam, e.n, e.nev, e.ncv) THEN "ctor_valid" ELSE "ctor_invalid", 1)
                    [] e.e = "Svd" -> Bump(Bump(c0, "svd_rows", 1), "svd_valid", IF SvdOK(e.m, e.n, e.ncomp, e.ncv) THEN 1 ELSE 0)
                    [] e.e = "Shape" -> Bump(Bump(c0, "shape_rows", 1), "shape_square", IF e.r = e.c THEN 1 ELSE 0)
                    [] e.e = "Sigma" -> Bump(c0, "sigma_rows", 1)
                    [] e.e = "Init" -> Bump(c0, "init_rows", 1)
                    [] e.e = "Rule" -> Bump(Bump(c0, "rule_rows", 1), "rule_valid", IF RuleOK(e.gen, e.role, e.rule) THEN 1 ELSE 0)
                    [] e.e = "AfterRule" -> Bump(c0, "after_rows", 1)
                    [] OTHER -> c0
    /\ l' = l + 1
TrFinish ==
    /\ l = Len(Tr) + 1
    /\ JsonSerialize(OutFile, [lines |-> Len(Tr), hits |-> mon, cov |-> cov])
    /\ l' = l + 1
    /\ UNCHANGED <<mon, cov>>
TrNext == TrStep \/ TrFinish
TraceSpec == TrInit /\ [][TrNext]_<<l, mon, cov>>
=============================================================================
