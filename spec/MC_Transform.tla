----------------------------- MODULE MC_Transform -----------------------------
(***************************************************************************)
(* Design-level theorems about the transformations, checked by TLC for all  *)
(* eigenvalues / shifts in a small half-integer range: the oracle used for  *)
(* C04 is itself examined, not an unexamined transcription.                 *)
(***************************************************************************)
EXTENDS Transform, TLC
CONSTANTS R
VARIABLES lam, lam2b, sig
Modes == {"plain", "si", "buck", "cay"}
MCInit == lam \in -R .. R /\ lam2b \in -R .. R /\ sig \in {s \in -R .. R : s % 2 # 0}
MCNext == UNCHANGED <<lam, lam2b, sig>>
MCSpec == MCInit /\ [][MCNext]_<<lam, lam2b, sig>>
Even(x) == x % 2 = 0
\* eigenvalues are integers (even half-units), shifts proper half-integers (odd half-units): the shift is never an eigenvalue
Dom == Even(lam) /\ Even(lam2b) /\ lam # lam2b
\* the documented inverse maps really invert the transformations
BackInverts == Dom => \A m \in Modes : (m \in {"buck", "cay"} /\ lam = 0) \/ FracEq(Back(m, Nu(m, lam, sig, 0), sig), lam)
\* shift-and-invert: "largest magnitude of nu" is "closest to sigma"
ClosestToSigma == Dom => (Prefers(0, Nu("si", lam, sig, 0), Nu("si", lam2b, sig, 0)) <=> Abs(lam - sig) < Abs(lam2b - sig))
\* LargestAlge of nu in shift-invert mode: among eigenvalues ABOVE the shift the closest one wins; any eigenvalue above beats any below
AlgeAbove == Dom /\ lam > sig /\ lam2b > sig => (Prefers(3, Nu("si", lam, sig, 0), Nu("si", lam2b, sig, 0)) <=> lam < lam2b)
AlgeAcross == Dom /\ lam > sig /\ lam2b < sig => Prefers(3, Nu("si", lam, sig, 0), Nu("si", lam2b, sig, 0))
\* Cayley: |nu| > 1 iff lambda and sigma have the same sign (lambda*sigma > 0)
CayleyMagn == Dom => (CmpAbsFrac(Nu("cay", lam, sig, 0), [num |-> 1, den |-> 1]) > 0 <=> lam * sig > 0)
\* buckling: nu > 1 iff lambda beyond sigma on sigma's side: lambda/(lambda - sigma) > 1 <=> sigma/(lambda - sigma) > 0
BucklingAbove1 == Dom => (CmpFrac(Nu("buck", lam, sig, 0), [num |-> 1, den |-> 1]) > 0 <=> sig * (lam - sig) > 0)
\* complex shift, real eigenvalue: nu = d/(d^2+s^2) has its maximum magnitude 1/(2s) at |d| = s: the map is two-to-one,
\* d and s^2/d give the same nu (the documented failure point of the root selection is d = +-s, a double root)
CsiTwoToOne == Dom /\ lam # sig => CmpFrac(Nu("csi", lam, sig, 3), Nu("csi", lam, sig, 3)) = 0
=============================================================================
