------------------------------- MODULE MC_SR -------------------------------
(* The ordering relation is satisfiable for every key vector (no vacuous oracle): key vectors built constructively *)
EXTENDS SelectionRule
CONSTANTS MaxLen
VARIABLES keys
MCInit == keys = <<>>
MCNext == Len(keys) < MaxLen /\ \E v \in -2 .. 2 : keys' = Append(keys, v)
MCSpec == MCInit /\ [][MCNext]_keys
SRInv == \A rule \in {0, 3, 4, 7, 8} : ExistsSorted(rule, [i \in 1 .. Len(keys) |-> Key(rule, FALSE, keys[i], 0)])
=============================================================================
