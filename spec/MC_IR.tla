------------------------------ MODULE MC_IR ------------------------------
(* Constants for the exhaustive design configurations of IRSolver.tla (spec/mc/IR_*.cfg) *)
EXTENDS IRSolver
MC_Configs == {[gen |-> FALSE, nev |-> 1, ncv |-> 3], [gen |-> FALSE, nev |-> 2, ncv |-> 4],
               [gen |-> TRUE, nev |-> 1, ncv |-> 3], [gen |-> TRUE, nev |-> 2, ncv |-> 5]}
MC_ConfigsQuick == {[gen |-> FALSE, nev |-> 2, ncv |-> 4], [gen |-> TRUE, nev |-> 1, ncv |-> 4]}
MC_ConfigsLive == {[gen |-> FALSE, nev |-> 1, ncv |-> 3], [gen |-> TRUE, nev |-> 1, ncv |-> 3]}
MC_MaxIt == {0, 1, 2}
MC_MaxItQuick == {0, 2}
=============================================================================
