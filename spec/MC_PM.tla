------------------------------- MODULE MC_PM -------------------------------
(* Design-level facts about the Park-Miller specification, one TLC state per sampled generator state *)
EXTENDS ParkMiller, FiniteSets
CONSTANTS SampleBits
VARIABLE c
PMCases ==
    (1 .. 2 ^ SampleBits) \cup {M - i : i \in 1 .. 2 ^ SampleBits}
    \cup {127773 * m + d : m \in 1 .. 2 ^ (SampleBits - 3), d \in {-1, 0, 1}}
    \cup {65536 * m + d : m \in 1 .. 2 ^ (SampleBits - 3), d \in {0, 65535}}
\* Next agrees with Schrage's method and maps 1..M-1 into itself
PMInv == Next(c) = Schrage(c) /\ Next(c) \in 1 .. M - 1
\* the multiplier is a primitive root of the prime modulus: one cycle through all M - 1 states
ASSUME Factorisation
ASSUME PrimitiveRoot
MCInit == c \in PMCases
MCNext == UNCHANGED c
MCSpec == MCInit /\ [][MCNext]_c
=============================================================================
