SPECIFICATION TraceSpec
CONSTANTS
  Configs = {}
  MaxIt = {}
  MaxCalls = 0
  V_Refresh = TRUE
  V_Resume = TRUE
  V_Faults = TRUE
  V_InitCheckFirst = TRUE
CHECK_DEADLOCK FALSE
