------------------------------ MODULE MC_IRApa ------------------------------
(***************************************************************************)
(* Ties the Apalache obligation of IRSolverApa.tla to the design model: TLC *)
(* checks on the configurations of mc/IR_refine.cfg that every step of      *)
(* IRSolver!Next (finite design constants) is a step of ApaNextIn over a    *)
(* finite superset of those constants - the relation Apalache proves the    *)
(* invariant inductive for, over all integers - and that the initial states *)
(* are covered.                                                             *)
(***************************************************************************)
EXTENDS IRSolverApa
MC_Configs == {[gen |-> FALSE, nev |-> 1, ncv |-> 3], [gen |-> FALSE, nev |-> 2, ncv |-> 4],
               [gen |-> TRUE, nev |-> 1, ncv |-> 3], [gen |-> TRUE, nev |-> 2, ncv |-> 5]}
MC_MaxIt == {0, 1, 2}
StepsAreApaSteps == [][ApaNextIn(0 .. 4, 0 .. 8, 1 .. 8)]_s
InitCovered == s.nev >= 1 /\ s.ncv > s.nev
IndInvHolds == IndInv      \* the inductive invariant itself holds on every reachable state of the bounded model, too
=============================================================================
