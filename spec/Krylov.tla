------------------------------- MODULE Krylov -------------------------------
(***************************************************************************)
(* The factorization object behind every implicitly restarted solver        *)
(* (LinAlg/Arnoldi.h, LinAlg/Lanczos.h) as a state machine over its PUBLIC  *)
(* calls - one action per call:                                             *)
(*                                                                          *)
(*   init(v0)                       KInit      / KInitZero (zero vector)    *)
(*   factorize_from(from, to)       KExtend    / KNoop (to <= from)         *)
(*                                             / KThrow (from > dim)        *)
(*   compress_H(single shift QR)    KShift(1)                               *)
(*   compress_H(double shift QR)    KShift(2)     (real Arnoldi only)       *)
(*   compress_V(Q)                  KCompressV                              *)
(*                                                                          *)
(* Abstract state: ph ("new": constructed; "fact": a length-dim             *)
(* factorization  OP V = V H + f e_dim'  is held; "shift": H has been       *)
(* compressed by pend shift-dimensions whose Q has not been applied to V    *)
(* yet), dim (= subspace_dim()), pend, cyc (completed compress cycles -      *)
(* the rounding budget of the identities grows with it), ops (lower bound   *)
(* of operator applications so far), hist (the calls made, for behaviour    *)
(* generation).  The solvers use one shape of history only                  *)
(* [I, E m, then S.. V E m repeated]; the property speaks about every         *)
(* sequence, so the model admits all: partial extensions, compress cycles of any     *)
(* width down to dim = 1, repeated init, rejected and empty calls in any    *)
(* position.  Each guard G_X / update U_X is an operator on a state record, *)
(* so the design model (MC_Krylov) and the trace specification              *)
(* (TraceKrylov) share them.                                                *)
(*                                                                          *)
(* Behaviours of this model are exported (tools/krygen.py: TLC -dump) and   *)
(* executed call for call on the real classes by harness/drv_krylov.cpp,    *)
(* whose recorded trace is then validated against the same operators.       *)
(***************************************************************************)
EXTENDS Naturals, Integers, Sequences, FiniteSets

\* kind: 1 real Arnoldi (single and double shifts), 2 Lanczos (single shifts only)
Fresh(kind, m) == [ph |-> "new", kind |-> kind, m |-> m, dim |-> 0, pend |-> 0, cyc |-> 0, ops |-> 0, hist |-> <<>>]

\* init(v0), v0 # 0: allowed in every state; discards whatever was held
G_Init(st) == TRUE
U_Init(st) == [st EXCEPT !.ph = "fact", !.dim = 1, !.pend = 0, !.cyc = 0, !.ops = st.ops + 2, !.hist = Append(st.hist, <<"I">>)]

\* init(0): rejected with std::invalid_argument BEFORE anything is modified
U_InitZero(st) == [st EXCEPT !.hist = Append(st.hist, <<"Z">>)]

\* factorize_from(dim, to): extend the held factorization to length `to`
G_Extend(st, to) == st.ph = "fact" /\ st.dim < to /\ to <= st.m
U_Extend(st, to) == [st EXCEPT !.dim = to, !.ops = st.ops + (to - st.dim), !.hist = Append(st.hist, <<"E", to>>)]

\* factorize_from(from, to) with to <= from: returns at once, nothing changes (legal in every state)
G_Noop(st, from, to) == to <= from /\ from \in 1 .. st.m /\ to \in 1 .. st.m
U_Noop(st, from, to) == [st EXCEPT !.hist = Append(st.hist, <<"N", from, to>>)]

\* factorize_from(from, to) with from > dim: std::invalid_argument, nothing changes
G_Throw(st, from, to) == from > st.dim /\ from < to /\ to <= st.m /\ st.ph # "shift"
U_Throw(st, from, to) == [st EXCEPT !.hist = Append(st.hist, <<"T", from, to>>)]

\* compress_H with a QR step of width w: needs the FULL m-step factorization at the first shift of a cycle,
\* and must leave at least one column
G_Shift(st, w) ==
    /\ w \in (IF st.kind = 1 THEN {1, 2} ELSE {1})
    /\ (st.ph = "fact" /\ st.dim = st.m) \/ st.ph = "shift"
    /\ st.dim - w >= 1
U_Shift(st, w) == [st EXCEPT !.ph = "shift", !.dim = st.dim - w, !.pend = st.pend + w, !.hist = Append(st.hist, <<"S", w>>)]

\* compress_V(Q): Q accumulated over the pending shifts
G_CompressV(st) == st.ph = "shift"
U_CompressV(st) == [st EXCEPT !.ph = "fact", !.pend = 0, !.cyc = st.cyc + 1, !.hist = Append(st.hist, <<"V">>)]

\* ---------------------------------------------------------------- properties of the design
TypeOK(st) ==
    /\ st.ph \in {"new", "fact", "shift"}
    /\ st.dim \in 0 .. st.m /\ st.pend \in 0 .. st.m
P_DimInRange(st)   == st.ph # "new" => st.dim \in 1 .. st.m          \* at least one column, never more than m
P_NewIsEmpty(st)   == st.ph = "new" => st.dim = 0 /\ st.pend = 0
P_ShiftAccount(st) == st.ph = "shift" => st.pend >= 1 /\ st.dim + st.pend = st.m     \* every shift removes exactly its width
P_FactClean(st)    == st.ph = "fact" => st.pend = 0
\* a factorization is handed on (ph = "fact") only by init, by an extension, or by compress_V: never straight from compress_H
P_HandOver(st)     == Len(st.hist) > 0 /\ st.hist[Len(st.hist)][1] = "S" => st.ph = "shift"
\* ops is a lower bound of the operator applications: two for init, one for each added column
P_OpsLower(st)     == st.ph # "new" => st.ops >= 2 + (st.dim - 1)
=============================================================================
