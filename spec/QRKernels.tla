------------------------------ MODULE QRKernels ------------------------------
(***************************************************************************)
(* Shifted QR helpers (UpperHessenbergQR, TridiagQR, DoubleShiftQR; C08)    *)
(* and small dense eigen-decompositions (TridiagEigen, UpperHessenbergSchur,*)
(* UpperHessenbergEigen; C09): object protocol, exact structural facts,     *)
(* exactness on the trivial-rotation domain, acceptance formulas of the     *)
(* measured identities.  The floating-point content is measured by the      *)
(* harness in long double; every inequality below is evaluated only here.   *)
(***************************************************************************)
EXTENDS Naturals, Integers, TraceLib

\* object protocol: results before compute() are a logic_error
ProtoOK(pre) == pre = 1

\* all identities to a small multiple of n * eps (* (||H|| + |s|) for the absolute ones)
QC_QR == 96
RelBound(ty, qn) == QC_QR + qn + QEPS(ty)
AbsBound(ty, qn, qscale) == RelBound(ty, qn) + qscale

\* generalized permutation inputs with shift 0: every rotation is trivial (x = 0 or y = 0), Q is a signed permutation and every
\* floating-point operation is exact: the identities must hold with error EXACTLY zero
ExactDomain(cls, kind, sk) == kind = "perm" /\ sk = 0 /\ cls \in {"hess", "tri"}
ExactOK(e) == e.qQQ = QZERO /\ e.qQR = QZERO /\ e.qSim = QZERO /\ e.qApply = QZERO
=============================================================================
