#!/usr/bin/env python3
import sys
sys.exit(0)
