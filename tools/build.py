#!/usr/bin/env python3
"""Content-hash cached build of the harness drivers against /repo's CURRENT working tree.

  python3 tools/build.py --all          build every target (setup_cmd), parse every spec with SANY
  python3 tools/build.py t1 t2 ...      build the named targets (used by check.py)

Objects land in /verif/.cache/build/<hash>/<target>; <hash> covers every file under
/repo/include/Spectra and /verif/harness plus the compiler flags, so an edited source tree is
always rebuilt and an unchanged one is never rebuilt.  Nothing under /tmp is needed afterwards.
"""
import hashlib
import os
import subprocess
import sys
import time
from concurrent.futures import ThreadPoolExecutor

ROOT = os.path.dirname(os.path.dirname(os.path.abspath(__file__)))
REPO = os.environ.get("VERIF_REPO", "/repo")
CACHE = os.path.join(ROOT, ".cache")
HARNESS = os.path.join(ROOT, "harness")
CXX = os.environ.get("CXX", "g++")
BASE_FLAGS = ["-std=c++11", "-O1", "-DSPECTRA_VERIF", "-I" + os.path.join(REPO, "include"), "-I/usr/include/eigen3",
              "-I" + HARNESS, "-w"]

# target -> (source, extra flags, extra link flags)
TARGETS = {}
for fam in ("sym", "gen", "geig"):
    for code, t in ((1, "f"), (2, "d"), (3, "l")):
        TARGETS["drv_ir_%s_%s" % (fam, t)] = ("drv_ir_%s.cpp" % fam, ["-DVH_ONLY=%d" % code], [])
TARGETS["drv_fn"] = ("drv_fn.cpp", [], [])
TARGETS["drv_args"] = ("drv_args.cpp", [], [])
TARGETS["drv_kernels"] = ("drv_kernels.cpp", [], [])
TARGETS["drv_bkldlt"] = ("drv_bkldlt.cpp", [], [])
TARGETS["drv_matop_prod"] = ("drv_matop.cpp", ["-DVH_MATOP_PART=1"], [])
TARGETS["drv_matop_solve"] = ("drv_matop.cpp", ["-DVH_MATOP_PART=2"], [])
TARGETS["drv_matop_ssi"] = ("drv_matop.cpp", ["-DVH_MATOP_PART=3"], [])
TARGETS["drv_aux"] = ("drv_aux.cpp", [], [])
TARGETS["drv_krylov"] = ("drv_krylov.cpp", [], [])
TARGETS["drv_mt"] = ("drv_mt.cpp", ["-pthread"], ["-pthread"])
# sanitizer variants (thorough tiers only)
TARGETS["drv_ir_sym_d_asan"] = ("drv_ir_sym.cpp", ["-DVH_ONLY=2", "-fsanitize=address,undefined", "-fno-sanitize-recover=undefined", "-fno-omit-frame-pointer", "-g"], ["-fsanitize=address,undefined"])
TARGETS["drv_ir_gen_d_asan"] = ("drv_ir_gen.cpp", ["-DVH_ONLY=2", "-fsanitize=address,undefined", "-fno-sanitize-recover=undefined", "-fno-omit-frame-pointer", "-g"], ["-fsanitize=address,undefined"])
TARGETS["drv_mt_tsan"] = ("drv_mt.cpp", ["-pthread", "-fsanitize=thread", "-g"], ["-pthread", "-fsanitize=thread"])


def tree_hash():
    h = hashlib.sha256()
    for base in (os.path.join(REPO, "include", "Spectra"), HARNESS):
        for dp, dn, fn in sorted(os.walk(base)):
            dn.sort()
            for f in sorted(fn):
                p = os.path.join(dp, f)
                h.update(p.encode())
                with open(p, "rb") as fh:
                    h.update(fh.read())
    h.update(" ".join(BASE_FLAGS).encode())
    return h.hexdigest()[:20]


_HASH = None


def build_dir():
    global _HASH
    if _HASH is None:
        _HASH = tree_hash()
    d = os.path.join(CACHE, "build", _HASH)
    os.makedirs(d, exist_ok=True)
    return d


def target_path(name):
    return os.path.join(build_dir(), name)


def build_one(name):
    src, flags, lflags = TARGETS[name]
    srcp = os.path.join(HARNESS, src)
    outp = target_path(name)
    if not os.path.exists(srcp):
        return name, None, "missing source " + src
    if os.path.exists(outp):
        return name, outp, "cached"
    tmp = outp + ".tmp%d" % os.getpid()
    cmd = [CXX] + BASE_FLAGS + flags + [srcp, "-o", tmp] + lflags
    t0 = time.time()
    p = subprocess.run(cmd, stdout=subprocess.PIPE, stderr=subprocess.STDOUT, universal_newlines=True)
    if p.returncode != 0:
        if os.path.exists(tmp):
            os.unlink(tmp)
        log = os.path.join(build_dir(), name + ".log")
        with open(log, "w") as fh:
            fh.write(" ".join(cmd) + "\n" + p.stdout)
        return name, None, "compile failed, see %s\n%s" % (log, p.stdout[-3000:])
    os.replace(tmp, outp)
    return name, outp, "built in %.0fs" % (time.time() - t0)


def build(names, jobs=16, quiet=False):
    """Build the named targets in parallel; returns {name: path}; raises on failure."""
    prune()
    res = {}
    errs = []
    with ThreadPoolExecutor(max_workers=jobs) as ex:
        for name, path, msg in ex.map(build_one, names):
            if not quiet:
                print("[build] %-22s %s" % (name, msg.split("\n")[0]), flush=True)
            if path is None:
                errs.append((name, msg))
            res[name] = path
    if errs:
        raise RuntimeError("build failed: " + "; ".join("%s: %s" % e for e in errs))
    return res


def prune(keep=6, min_age_s=5400):
    """Keep only the most recent build directories (disk is limited); never touch a directory that was used during the last
    90 minutes (another check may be running from it)."""
    b = os.path.join(CACHE, "build")
    if not os.path.isdir(b):
        return
    cur = os.path.basename(build_dir())
    try:
        os.utime(os.path.join(b, cur), None)
    except OSError:
        pass
    now = time.time()
    ds = sorted((os.path.getmtime(os.path.join(b, d)), d) for d in os.listdir(b))
    old = [(m, d) for m, d in ds if d != cur]
    for m, d in (old[:-keep] if keep else old):
        if now - m > min_age_s:
            subprocess.run(["rm", "-rf", os.path.join(b, d)])


def sany_all():
    spec = os.path.join(ROOT, "spec")
    bad = []
    for f in sorted(os.listdir(spec)):
        if f.endswith(".tla"):
            p = subprocess.run(["tla-sany", f], cwd=spec, stdout=subprocess.PIPE, stderr=subprocess.STDOUT, universal_newlines=True)
            ok = p.returncode == 0 and "Semantic errors" not in p.stdout and "***Parse Error***" not in p.stdout and "Fatal errors" not in p.stdout
            print("[sany]  %-22s %s" % (f, "ok" if ok else "FAILED"), flush=True)
            if not ok:
                bad.append(f)
    return bad


def main():
    args = sys.argv[1:]
    if not args or args[0] == "--all":
        names = [n for n in TARGETS if not n.endswith("san") and os.path.exists(os.path.join(HARNESS, TARGETS[n][0]))]
        try:
            build(names)
        except RuntimeError as e:
            print(e)
            return 2
        bad = sany_all()
        return 2 if bad else 0
    try:
        build(args)
    except RuntimeError as e:
        print(e)
        return 2
    return 0


if __name__ == "__main__":
    sys.exit(main())
