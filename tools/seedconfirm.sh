#!/bin/bash
# usage: seedconfirm.sh <dir with patch.diff + demo.cpp> <out.json> [jobs]
# Confirms a seeded change in a scratch worktree of /repo HEAD: the patch applies, the repository's whole test suite still passes with it,
# and the demo exits 0 on the clean tree and non-zero on the changed tree.  The worktree and its build output are removed afterwards.
src="$1"; out="$2"; jobs="${3:-6}"
id=$(basename "$src")_$$
wt=/tmp/seedconfirm_wt_$id
lock=/tmp/seedrun.lock   # concurrent `git worktree add/remove` in one repository race
flock $lock sh -c "git -C /repo worktree remove --force $wt >/dev/null 2>&1; git -C /repo worktree prune; git -C /repo worktree add --detach $wt HEAD >/dev/null 2>&1" || { echo "{\"error\":\"worktree\"}" > "$out"; exit 0; }
applies=true; suite=skipped; demo_clean=na; demo_changed=na
( cd $wt && git apply "$src/patch.diff" ) 2>/tmp/seedconfirm_err_$id || applies=false
if $applies; then
  if ( cd $wt && cmake -G Ninja -B _build -DCMAKE_BUILD_TYPE=RelWithDebInfo -DBUILD_TESTS=ON >/dev/null 2>&1 && cmake --build _build -j$jobs >/dev/null 2>&1 && ctest --test-dir _build -j$jobs --timeout 900 >/tmp/seedconfirm_ctest_$id 2>&1 ); then suite=pass; else suite=fail; fi
  g++ -std=c++11 -O1 -I/repo/include -I/usr/include/eigen3 "$src/demo.cpp" -o /tmp/seedconfirm_demo0_$id 2>/dev/null && { timeout 600 /tmp/seedconfirm_demo0_$id >/dev/null 2>&1; demo_clean=$?; }
  g++ -std=c++11 -O1 -I$wt/include -I/usr/include/eigen3 "$src/demo.cpp" -o /tmp/seedconfirm_demo1_$id 2>/dev/null && { timeout 600 /tmp/seedconfirm_demo1_$id >/dev/null 2>&1; demo_changed=$?; }
fi
echo "{\"patch_applies\": $applies, \"test_suite_with_change\": \"$suite\", \"demo_exit_on_clean_tree\": \"$demo_clean\", \"demo_exit_with_change\": \"$demo_changed\"}" > "$out"
rm -f /tmp/seedconfirm_demo0_$id /tmp/seedconfirm_demo1_$id /tmp/seedconfirm_err_$id /tmp/seedconfirm_ctest_$id
flock $lock git -C /repo worktree remove --force $wt >/dev/null 2>&1
cat "$out"
