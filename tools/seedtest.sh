#!/bin/bash
# usage: tools/seedtest.sh <patch.diff> <check> [<check> ...]   -- applies a seeded change to /repo, runs the checks, reverts
patch="$1"; shift
cd /repo || exit 2
if ! git diff --quiet; then echo "repo dirty"; exit 2; fi
git apply "$patch" || { echo "patch does not apply"; exit 2; }
trap 'git -C /repo checkout -- . ' EXIT
for c in "$@"; do
  out=$(cd /verif && python3 tools/check.py $c --tier ${TIER:-quick} 2>&1)
  rc=$?
  echo "== $c rc=$rc  $(echo "$out" | grep -c '^VIOLATION') violations; rules: $(echo "$out" | grep '^VIOLATION' | sed 's/.*rule=\([^ ]*\).*/\1/' | sort | uniq -c | tr '\n' ' ')"
  echo "$out" | grep -E "^\[C|INFRA" | cut -c1-300
done
