#!/usr/bin/env python3
"""Shared machinery of the checks: run drivers, run TLC (design models and trace validation),
classify hits, write evidence, print verdict lines."""
import hashlib
import json
import os
import re
import shutil
import subprocess
import sys
import time
from concurrent.futures import ThreadPoolExecutor

ROOT = os.path.dirname(os.path.dirname(os.path.abspath(__file__)))
sys.path.insert(0, os.path.join(ROOT, "tools"))
import build as B  # noqa: E402

SPEC = os.path.join(ROOT, "spec")
CACHE = os.path.join(ROOT, ".cache")
TLA_CP = "/opt/veriftools/tla/tla2tools.jar:/opt/veriftools/tla/CommunityModules-deps.jar"
# scratch space of this run; runs against another checkout (VERIF_REPO=<worktree>, used to test seeded changes in parallel) get their own
_REPO = os.environ.get("VERIF_REPO", "/repo")
WORK = os.path.join(CACHE, "work" if _REPO == "/repo" else "work_" + hashlib.sha256(_REPO.encode()).hexdigest()[:10])
# evidence and replays of runs against another checkout never touch the committed evidence of /repo
EVID = os.path.join(ROOT, "evidence") if _REPO == "/repo" else os.path.join(WORK, "evidence")
REPLAY = os.path.join(CACHE, "replay") if _REPO == "/repo" else os.path.join(WORK, "replay")


class Infra(Exception):
    """Infrastructure failure (exit 2): never reported as a violation."""


def workdir(name):
    d = os.path.join(WORK, name)
    shutil.rmtree(d, ignore_errors=True)
    os.makedirs(d, exist_ok=True)
    return d


def chunks(lst, n):
    n = max(1, min(n, len(lst)))
    k, m = divmod(len(lst), n)
    out, i = [], 0
    for j in range(n):
        sz = k + (1 if j < m else 0)
        out.append(lst[i:i + sz])
        i += sz
    return [c for c in out if c]


# ------------------------------------------------------------------------------------------ drivers
def run_driver_chunk(binary, descs, outfile, timeout, env=None):
    t0 = time.time()
    e = dict(os.environ)
    if env:
        e.update(env)
    try:
        p = subprocess.run([binary, outfile], input="\n".join(descs) + "\n", stdout=subprocess.PIPE, stderr=subprocess.PIPE,
                           universal_newlines=True, timeout=timeout, env=e)
        rc = p.returncode
        if rc < 0:
            # the driver was killed by a signal its handler could not report (e.g. the handler itself crashed on a corrupted heap): the code
            # under test took the process down.  Keep the complete lines of the trace and close it with the Abort line the handler would
            # have written, so that the specification sees the crash as what it is (rule Abort) instead of an unreadable trace.
            try:
                with open(outfile, "rb") as fh:
                    data = fh.read()
                cut = data.rfind(b"\n") + 1
                with open(outfile, "wb") as fh:
                    fh.write(data[:cut])
                    fh.write(('{"e":"Abort","why":"killed","sig":%d}\n' % (-rc)).encode())
                rc = 0
            except OSError:
                pass
        return dict(file=outfile, rc=rc, err=p.stderr[-4000:], timeout=False, wall=time.time() - t0, ndesc=len(descs), killed=p.returncode < 0)
    except subprocess.TimeoutExpired as ex:
        return dict(file=outfile, rc=-1, err=(ex.stderr or "")[-2000:] if isinstance(ex.stderr, str) else "", timeout=True,
                    wall=time.time() - t0, ndesc=len(descs))


def run_drivers(jobs, wd, nproc=16, timeout=600, env=None):
    """jobs: list of (binary_path, [descs]).  Descriptors are spread over nproc processes.
    Returns list of result dicts (one per chunk)."""
    tasks = []
    total = sum(len(d) for _, d in jobs) or 1
    for bi, (binary, descs) in enumerate(jobs):
        if not descs:
            continue
        share = max(1, round(nproc * len(descs) / total))
        # interleave so that heavy descriptors are spread
        parts = [descs[i::share] for i in range(share)]
        for ci, part in enumerate(parts):
            if part:
                tasks.append((binary, part, os.path.join(wd, "trace_%d_%d.ndjson" % (bi, ci))))
    res = []
    with ThreadPoolExecutor(max_workers=nproc) as ex:
        futs = [ex.submit(run_driver_chunk, b, d, f, timeout, env) for b, d, f in tasks]
        for f, (b, d, fn) in zip(futs, tasks):
            r = f.result()
            r["binary"] = os.path.basename(b)
            r["descs"] = d
            res.append(r)
    return res


def trace_runs(path):
    """Return the list of descriptors (Reset lines, in order) and the line count of a trace file."""
    descs, n = [], 0
    last = ""
    with open(path) as fh:
        for line in fh:
            n += 1
            last = line
            if line.startswith('{"e":"Reset"'):
                try:
                    descs.append(json.loads(line).get("desc", ""))
                except Exception:
                    descs.append("?")
    complete = last.startswith('{"e":"End"') or last.startswith('{"e":"Abort"') or n == 0
    return descs, n, complete


# ------------------------------------------------------------------------------------------ TLC
def tlc_cmd(module, cfg, workers, metadir, xmx="3g", extra=None):
    return ["java", "-XX:+UseParallelGC", "-Xss128m", "-Xmx" + xmx, "-cp", TLA_CP, "tlc2.TLC", "-workers", str(workers), "-metadir", metadir,
            "-config", cfg, module] + (extra or [])


def run_trace_tlc(module, cfg, trace, outjson, timeout=900):
    """Validate one trace file.  Returns dict(status=ok|rejected|error, hits, cov, lines, stdout)."""
    md = trace + ".meta"
    shutil.rmtree(md, ignore_errors=True)
    if os.path.exists(outjson):
        os.unlink(outjson)
    env = dict(os.environ)
    env["TRACE"] = trace
    env["OUT"] = outjson
    t0 = time.time()
    try:
        p = subprocess.run(tlc_cmd(module, cfg, 1, md, xmx="3g"), cwd=SPEC, env=env, stdout=subprocess.PIPE, stderr=subprocess.STDOUT,
                           universal_newlines=True, timeout=timeout)
        outtxt = p.stdout
        rc = p.returncode
    except subprocess.TimeoutExpired as ex:
        outtxt = (ex.stdout or "") if isinstance(ex.stdout, str) else ""
        rc = -9
    shutil.rmtree(md, ignore_errors=True)
    m = re.search(r"(\d+) states generated, (\d+) distinct states found", outtxt)
    states = int(m.group(2)) if m else 0
    gen = int(m.group(1)) if m else 0
    res = dict(trace=trace, rc=rc, states=states, generated=gen, wall=time.time() - t0)
    if os.path.exists(outjson):
        with open(outjson) as fh:
            o = json.load(fh)
        res.update(status="ok", hits=o.get("hits", []), cov=o.get("cov", {}), lines=o.get("lines", 0))
    else:
        # the trace was not consumed to the end: structural rejection or a TLC evaluation error
        res.update(status="error" if ("Error:" in outtxt or rc not in (0,)) else "rejected", hits=[], cov={}, lines=0)
        res["depth"] = states
    res["stdout_tail"] = outtxt[-3000:]
    return res


def run_traces(module, cfg, traces, jobs=8, timeout=900):
    with ThreadPoolExecutor(max_workers=jobs) as ex:
        futs = [ex.submit(run_trace_tlc, module, cfg, t, t + ".out.json", timeout) for t in traces]
        return [f.result() for f in futs]


def run_model(module, cfg, workers=8, timeout=1500, xmx="8g", name=None, extra=None):
    """Exhaustive TLC run of a design configuration.  Returns dict(ok, states, generated, violated, wall, tail)."""
    md = os.path.join(WORK, "meta_" + (name or os.path.basename(cfg)))
    shutil.rmtree(md, ignore_errors=True)
    t0 = time.time()
    try:
        p = subprocess.run(tlc_cmd(module, cfg, workers, md, xmx=xmx, extra=extra), cwd=SPEC, stdout=subprocess.PIPE, stderr=subprocess.STDOUT,
                           universal_newlines=True, timeout=timeout)
        txt, rc = p.stdout, p.returncode
    except subprocess.TimeoutExpired as ex:
        txt, rc = ((ex.stdout or "") if isinstance(ex.stdout, str) else "") + "\nTIMEOUT", -9
    shutil.rmtree(md, ignore_errors=True)
    for f in os.listdir(SPEC):
        if "_TTrace_" in f:
            os.unlink(os.path.join(SPEC, f))
    m = re.search(r"(\d+) states generated, (\d+) distinct states found", txt)
    viol = re.findall(r"Error: (Invariant \S+ is violated|Temporal properties were violated|Action property \S+ is violated|Deadlock reached)", txt)
    ok = ("No error has been found" in txt) and rc == 0
    return dict(ok=ok, rc=rc, states=int(m.group(2)) if m else 0, generated=int(m.group(1)) if m else 0, violated=viol,
                wall=time.time() - t0, tail=txt[-2500:], cfg=os.path.basename(cfg))


# ------------------------------------------------------------------------------------------ findings
def load_known():
    p = os.path.join(ROOT, "known_findings.json")
    if not os.path.exists(p):
        return []
    with open(p) as fh:
        return json.load(fh).get("findings", [])


def is_known(known, prop, rule, desc):
    for k in known:
        if k.get("fixed"):
            continue
        if k.get("property") == prop and k.get("rule") == rule and k.get("descriptor") == desc:
            return k
    return None


# ------------------------------------------------------------------------------------------ evidence
def write_evidence(prop, tier, seed, level, coverage, assumptions, wall, violations):
    os.makedirs(EVID, exist_ok=True)
    ev = dict(property_id=prop, tier=tier, seed=int(seed), level=level, coverage=coverage, assumptions=assumptions,
              wall_s=round(wall, 2), violations=int(violations))
    with open(os.path.join(EVID, prop + ".json"), "w") as fh:
        json.dump(ev, fh, indent=1, sort_keys=True)
    return ev


def save_replay(prop, idx, desc, driver, trace_file, run_index, hits, extra=None):
    """Write a replay directory for a violation: the descriptor, the trace slice of that run, the hits."""
    d = os.path.join(REPLAY, prop, "v%03d" % idx)
    shutil.rmtree(d, ignore_errors=True)
    os.makedirs(d, exist_ok=True)
    with open(os.path.join(d, "desc.txt"), "w") as fh:
        fh.write(desc + "\n")
    with open(os.path.join(d, "hits.json"), "w") as fh:
        json.dump(dict(property=prop, driver=driver, descriptor=desc, hits=hits, extra=extra), fh, indent=1)
    if trace_file and os.path.exists(trace_file):
        # slice of the run
        out, cur = [], 0
        with open(trace_file) as fh:
            for line in fh:
                if line.startswith('{"e":"Reset"'):
                    cur += 1
                if cur == run_index:
                    out.append(line)
                elif cur > run_index:
                    break
        with open(os.path.join(d, "trace.ndjson"), "w") as fh:
            fh.writelines(out[:5000])
    return d


def run_apalache(spec_rel, inv, expect_ok=True, timeout=900, init=None, length=0, next=None, cinit=None):
    """Discharge (or, for a negative control, refute) an invariant with Apalache: at length 0 (Init => Inv over unbounded integers), or,
    with init=<predicate describing an arbitrary state that satisfies the invariant> and length=1, the inductive step Inv /\ Next => Inv'."""
    outdir = os.path.join(WORK, "apalache_%s_%s" % (inv, init or "Init"))
    t0 = time.time()
    try:
        p = subprocess.run(["apalache-mc", "check", "--length=%d" % length, "--inv=" + inv] + (["--init=" + init] if init else []) + (["--next=" + next] if next else []) + (["--cinit=" + cinit] if cinit else []) +
                           ["--out-dir=" + outdir, os.path.basename(spec_rel)],
                           cwd=os.path.join(SPEC, os.path.dirname(spec_rel)), stdout=subprocess.PIPE, stderr=subprocess.STDOUT, universal_newlines=True, timeout=timeout)
        txt = p.stdout
    except subprocess.TimeoutExpired:
        txt = "TIMEOUT"
    shutil.rmtree(outdir, ignore_errors=True)
    ok = "The outcome is: NoError" in txt
    refuted = "The outcome is: Error" in txt
    return dict(spec=spec_rel, inv=inv, init=init or "Init", length=length, proved=ok, refuted=refuted, as_expected=(ok if expect_ok else refuted), wall=time.time() - t0, tail=txt[-1200:])
