#!/usr/bin/env python3
"""Writes seeded/<id>-{C..H}/meta.json (second, third and fourth round of independent seeders) from the confirmation results
(tools/seedconfirm.sh, one json per seed) and the detection results (tools/seedrun.sh output, one txt per seed).
usage: mkseedmeta2.py <confirm dir>[,<confirm dir>...] <detection dir>"""
import json, os, re, sys
ROOT = os.path.dirname(os.path.dirname(os.path.abspath(__file__)))
CONFS, DET = sys.argv[1].split(","), sys.argv[2]
NEEDS = {
 "C01-C": "the same DenseSymShiftSolve object factorized twice (second solver / own set_shift with another shift) after a factorization that pivoted",
 "C01-D": "a user start vector that is an eigenvector to full working accuracy but not exactly (ones on a constant-row-sum matrix), and a rule that wants 0",
 "C02-C": "exact Arnoldi breakdown before step ncv (start vector inside an invariant subspace: block triangular / block diagonal matrix)",
 "C02-D": "NotConverging with 0 < nconv < nev and a final order different from the selection order (sorting != selection, or a shift solver's default arguments)",
 "C03-C": "SymShiftInvert with dense A, UploA != UploB, and B stored with only its UploB triangle valid",
 "C03-D": "one SymShiftInvert object (dense A or B) factorized a second time with another shift after a first factorization that pivoted",
 "C04-C": "Cayley mode with a magnitude rule and sigma inside the spectrum (eigenvalues on both sides)",
 "C04-D": "a second compute() with ANOTHER rule on the same object without init(), after a Successful first call",
 "C05-C": "Krylov breakdown whose first expansion attempt fails: operator of rank < ncv (e1 e1', diag(5,3,2,0,..), rank-1 nonsymmetric)",
 "C05-D": "partly converged run (0 < count < nev) of a general solver with a Smallest* sorting that stores an unconverged pair ahead of a converged one",
 "C06-C": "GenEigsComplexShiftSolver whose compute() throws from the final sort (valid selection, unsupported SORTING rule), then reuse of the solver / operator",
 "C06-D": "regular-inverse mode with SparseRegularInverse: two runs on the same B operator object, compared bit for bit",
 "C07-C": "start vector that is the dominant eigenvector to machine precision but not exactly (0 < max|f| < eps |H00|)",
 "C07-D": "generalized mode with B != I (regular inverse / shift-invert / buckling / Cayley) and a breakdown during the factorization",
 "C08-C": "exactly zero subdiagonal entry with a negative shifted pivot at that step, and the MATRIX overload of apply_QtY",
 "C08-D": "graded matrix with subdiagonal/pivot ratio in 5e-7..1.2e-5 (Taylor branch), compared tightly against an extended-precision reference",
 "C09-C": "matrix whose upper triangle and diagonal are exactly zero (weighted shift / companion matrix of x^n)",
 "C09-D": "two or more complex pairs with bit-identical real parts (block upper triangular integer matrices)",
 "C10-C": "[0 a; a 0]-like diagonal blocks, zero-diagonal integer matrices, a shift equal to the diagonal, or the graded [0 1 0; 1 t t; 0 t 1]",
 "C10-D": "complex scalar x RowMajor x Upper together, nonzero imaginary off-diagonal entry",
 "C11-C": "SymShiftInvert<Sparse, Dense> with UploA != UploB and A stored as one triangle",
 "C11-D": "graded symmetric input: near-zero diagonal after shifting whose column maximum sits in a row with a huge off-diagonal entry ([[0,1,0],[1,1,M],[0,M,M]])",
 "C12-C": "nev == 1 and an unsupported SORTING rule on a HermEigsBase-derived solver (two cooperating sites)",
 "C12-D": "a generalized symmetric solver (rvalue-operator constructor) with a valid nev and ncv > n",
 "C13-C": "operator of rank < ncv (zero matrix, diag(3,2,0,..)), maxit = 0, ncv >= 7, and an operator that counts its applications (work bound)",
 "C13-D": "Scalar = float and an exact breakdown (identity, zero, diagonal or low-rank matrix)",
 "C14-C": "GenEigsComplexShiftSolver and a fault in the last few probe applications after convergence; exception type/payload checked, or a non-std exception",
 "C14-D": "generalized solver with a user B operator and a fault in B at the single B application of compress_V (once per restart)",
 "C15-C": "a magnitude rule on a symmetric indefinite matrix whose wanted eigenvalues alternate in sign (a sort permutation with a cycle of length >= 3)",
 "C15-D": "SparseSymMatProd with the non-default Eigen::Upper and a matrix stored by its upper triangle only",
 "C16-C": "an exactly square matrix that is not symmetric positive semi-definite",
 "C16-D": "compute() stopped early by a small maxit with a repeated leading singular value (a hole in the converged flags)",
 "C17-C": "symmetric indefinite / negative definite A: a negative wanted eigenvalue whose magnitude order differs from its value order",
 "C17-D": "residual concentrated in the last row (stiff, weakly coupled last coordinate) with the Jacobi preconditioner",
 "C18-C": "SortRule::BothEnds and an odd length >= 3",
 "C18-D": "a rule undefined for real values together with length 0 or 1",
 "C19-C": "one of 8403 particular generator states (smallest 20443707); seed 717368 at draw 2",
 "C19-D": "a second draw from the same generator object after random_vec()",
 "C20-C": "two solvers of the same type that both hit a breakdown with overlapping expand_basis() calls",
 "C20-D": "the Davidson solver with ONE SparseSymMatProd wrapper shared by concurrently running solvers (operator* on a block)",
 # ---- round 3
 "C01-E": "a second compute() without init() on a factorization that is already at step ncv (partly converged first call with sorting != selection, or SymEigsShiftSolver: values back-transformed twice)",
 "C01-F": "a start vector near (1e-9) but not inside an invariant subspace, so that ||f||^2 < eps |H00| although ||f|| is far above rounding level",
 "C02-E": "init(); compute(); compute() on a real- or complex-shift general solver (values back-transformed twice)",
 "C02-F": "a Krylov space that becomes almost (1e-8 .. 1e-14) invariant before reaching dimension ncv: the residual is zeroed as noise",
 "C03-E": "B-inner-product mode with B scaled / ill-conditioned, an exact breakdown, and the correction loop of expand_basis entered",
 "C03-F": "compute(); compute() without init() on a shift-and-invert / Cayley generalized solver (values back-transformed twice)",
 "C04-E": "SortRule::BothEnds with an odd ncv (the recommended minimum 2 nev + 1 is odd)",
 "C04-F": "Cayley mode, a magnitude rule, generalized eigenvalues on both sides of sigma",
 "C05-E": "NotConverging run with 0 < count < nev, a sorting that stores unconverged values before converged ones, and eigenvectors(m) with m >= count",
 "C05-F": "general solver: init(); compute(...) with a converged value, then compute(sel, maxit = 0) without a new init()",
 "C06-E": "GenEigsComplexShiftSolver whose compute() is rejected by the final sort (unsupported SORTING rule), then reuse of the solver / operator",
 "C06-F": "regular-inverse mode with SparseRegularInverse: solver reuse / shared B operator, bitwise comparison",
 "C07-E": "generalized solver with B != I, an exact breakdown, and the first Gram-Schmidt pass of expand_basis not sufficient",
 "C07-F": "non-symmetric solver and a NEAR breakdown (start vector 1e-9 .. 1e-12 away from a small invariant subspace)",
 "C08-E": "a two-row reflector of the double-shift class whose entries are beyond sqrt(min) / sqrt(max) of the scalar type",
 "C08-F": "matrix_QtHQ(dest) of the tridiagonal class with a dest that already has size n x n and non-zeros outside the band",
 "C09-E": "Francis iteration that stalls for 30 sweeps (second exceptional shift) while rows below the active window have deflated: [B4 X; 0 R]",
 "C09-F": "one TridiagEigen object computed twice at the same size",
 "C10-E": "a second factorization of the same size on one BKLDLT object that takes a no-pivot step where the first pivoted",
 "C10-F": "an exactly singular shifted matrix whose zero pivot appears before the last position with a zero column under it",
 "C11-E": "DenseSymShiftSolve (ColMajor, Lower) given a non-contiguous view: block of a bigger matrix or Map with an outer stride",
 "C11-F": "one DenseGenComplexShiftSolve object: set_shift(a, b) followed by set_shift(a, a)",
 "C12-E": "generalized symmetric solver (rvalue-operator constructor) with ncv > n",
 "C12-F": "general solver, unsupported SORTING rule, run in which nothing has converged",
 "C13-E": "ncv > 16 and exactly duplicated Ritz values (zero matrix): the sort comparator is not a strict weak order",
 "C13-F": "a second compute() without init() on a symmetric-family solver (Ritz value array shrunk to nev by the first call)",
 "C14-E": "general solver: fault during the re-factorization of a restart (application k >= ncv + 2), then reuse of the same solver object",
 "C14-F": "regular-inverse mode: one CG solve of the library's B wrapper fails (the A operator returns Inf once, it does not throw)",
 "C15-E": "LargestMagn / SmallestMagn on an indefinite matrix (a sort permutation that is not an involution)",
 "C15-F": "compute() with a tolerance below the default 1e-10 of compute_with_guess()",
 "C17-E": "a tight tolerance (tol * n below sqrt(eps)) on a positive definite pencil",
 "C17-F": "a second compute() on the same LOBPCG object (warm start) with a preconditioner and 2 <= active columns < k in its first iteration",
 "C18-E": "a rule undefined for real values together with length 0 or 1",
 "C18-F": "SortRule::BothEnds with an odd length >= 3",
 "C19-E": "complex scalar type (order of evaluation of two draws in one constructor call)",
 "C19-F": "one of the 57 largest generator states (draw in (0.5, 0.5 + 2.6e-8]) for double / long double",
 "C20-E": "solvers of one instantiation but different n in one process, the other one reaching factorize_from first, and a near-breakdown residual between eps*sqrt(n_a) and eps*sqrt(n_b)",
 "C20-F": "two general solvers that both reach the fallback directions of expand_basis (matrices with exact zero rows) in another order than sequentially",
 # ---- round 4
 "C01-G": "the history init(); compute(); init(v0) on one object, results read before the next compute() (convergence flags only cleared by the first init)",
 "C01-H": "a user start vector that is an eigenvector to working accuracy (residual of the step-1 factorization at rounding level but not exactly zero)",
 "C02-G": "compute(); eigenvectors(); compute(other sorting/selection) converging without a restart; eigenvectors() (a mutable cache that only restart() and init() drop)",
 "C02-H": "an exact breakdown where A*random already lies in the Krylov space: general low-rank matrix of rank < ncv - 1",
 "C03-G": "SymShiftInvert<Sparse, Dense> with UploA != UploB and a sparse A that stores only its UploA triangle",
 "C03-H": "the caller's sigma variable changes after the solver was constructed (the solver keeps a reference instead of a copy)",
 "C04-G": "Cayley mode, a magnitude rule, an interior shift with the nev-th and (nev+1)-th candidates on opposite sides of sigma (two cooperating sites)",
 "C04-H": "the Davidson solver with BothEnds or a magnitude rule on an indefinite matrix (inverse permutation in RitzPairs::sort)",
 "C05-G": "init(v) with v exactly in the null space of the operator (zero matrix, graph Laplacian with the vector of ones)",
 "C05-H": "a compute() that leaves flags set, then compute(sel, maxit = 0) without init()",
 "C06-G": "GenEigsComplexShiftSolver whose compute() is rejected by the final sort (unsupported SORTING rule): the probe shift stays installed",
 "C06-H": "a second set_shift() with another shift on the same dense shift-solve operator object (stale Bunch-Kaufman permutation)",
 "C07-G": "general solver and an exact breakdown at a position i > m_k (start vector spanning an invariant subspace of dimension >= 2)",
 "C07-H": "B-inner-product mode with B not a multiple of I and residual norms below sqrt(eps) in absolute terms (small-norm operator)",
 "C10-G": "a second factorization of the same size on one BKLDLT object that does not pivot where the first one did",
 "C10-H": "a step whose largest off-diagonal column entry lies in row n-2 with |A[n-1,n-2]| >> |A[n-2,n-2]| (column n-2 never searched below the diagonal)",
 "C11-G": "SymShiftInvert<Sparse, Dense>, UploA != UploB, and the shift exactly 0 (a fast path that factorizes the wrong triangle)",
 "C11-H": "the block product operator* of DenseSymMatProd on a matrix whose unused triangle is not the mirror image",
 "C12-G": "nev == 1 and one of the four complex-only rules as SORTING argument of a symmetric-family solver (two cooperating sites)",
 "C12-H": "PartialSVDSolver constructed with ncomp >= min(rows, cols): the new up-front check throws before the guard that releases the operator",
 "C13-G": "exactly equal Ritz values (zero matrix, c*I, exact multiplicities) and ncv >= 17: the sort comparator is not a strict weak order",
 "C13-H": "a second compute() without init() (Ritz value array shrunk to nev entries by the first call's final sort)",
 "C14-G": "GenEigsComplexShiftSolver, a fault in the eigenvalue-recovery solves after the counted iteration, and an exception type outside std::exception",
 "C14-H": "regular-inverse mode with the library's SparseRegularInverse: one CG solve fails (the user's A operator returned NaN once) and the wrapper stays failed",
 "C15-G": "compute() ending Successful, then compute_with_guess() on the same object that does not converge (status only reset in compute())",
 "C15-H": "a converged Ritz pair overtaken in the sorted order by an unconverged one (LargestMagn with near-equal magnitudes of opposite sign; SmallestMagn on indefinite matrices)",
 "C16-G": "matrix_U(k1) / matrix_V(k1) with k1 < nconv followed by a request for more columns after the same compute()",
 "C16-H": "compute() stopped by a small maxit with a lower singular triplet converged before a higher one (hole in the converged flags)",
 "C17-G": "a pencil at a small scale (A * 1e-9) with a proportionally small tolerance, no preconditioner (absolute pivot threshold in the B-orthonormalisation)",
 "C17-H": "compute() succeeds, setB(another B), compute() again on the same object (warm start skips the B-orthonormalisation); patch rebased after fix 662fdf6",
 "C20-G": "solvers of one instantiation but different n in one process, the other one reaching Lanczos::factorize_from first, and a near-breakdown residual between eps*sqrt(n_a) and eps*sqrt(n_b)",
 "C20-H": "two threads of the same instantiation inside a breakdown restart (expand_basis) at the same time",
}
OUTSIDE = {
 "C04-H": "Davidson only: the selection clause of C04 for the Davidson solver is decided in the C15 check by design (rule ReturnedIsWanted there), which catches it",
 "C14-F": "outside the fault model of C14 (the user's operator THROWS): here it returns Inf once and the library's own B wrapper turns that into a sticky failure",
 "C17-F": "outside the quantifier of C17 (inputs and configurations, random full-rank initial blocks): needs a second compute() on the same object",
 "C20-E": "the concurrent, sequential and fresh-process executions agree unless a near-breakdown residual falls between two n-dependent thresholds; "
          "the driver's inputs did not reach that window (and a fork()ed child inherits function-local statics that are already initialised)",
}
OTHER = {}   # sid -> [checks] when the own check misses and another catches; filled from files named <sid>@<check>.txt in DET
n = 0
for sid in sorted(os.listdir(os.path.join(ROOT, "seeded"))):
    if not re.match(r"C\d\d-[C-H]$", sid):
        continue
    d = os.path.join(ROOT, "seeded", sid)
    prop = sid.split("-")[0]
    conf = {}
    for cdir in CONFS:
        if os.path.exists(os.path.join(cdir, sid + ".json")):
            conf = json.load(open(os.path.join(cdir, sid + ".json")))
    if os.path.exists(os.path.join(d, "confirm.json")):
        conf = json.load(open(os.path.join(d, "confirm.json")))
    det_txt = open(os.path.join(DET, sid + ".txt")).read() if os.path.exists(os.path.join(DET, sid + ".txt")) else ""
    m = re.search(r"%s %s rc=(\d+) nviol=(\d+) rules:\s*(.*)" % (sid, prop), det_txt)
    own = bool(m and m.group(1) == "1" and int(m.group(2)) > 0)
    rules = re.findall(r"\d+ ([\w:@*]+)", m.group(3)) if m else []
    others = []
    for f in sorted(os.listdir(DET)):
        mm = re.match(re.escape(sid) + r"@(C\d\d)\.txt$", f)
        if mm and re.search(r"rc=1 nviol=[1-9]", open(os.path.join(DET, f)).read()):
            others.append(mm.group(1))
    meta = dict(
        seed=sid, breaks_property=prop, round=2 if sid[-1] in "CD" else (3 if sid[-1] in "EF" else 4), author="independent sub-agent (saw only the property text and a scratch worktree)",
        needs_to_manifest=NEEDS.get(sid, ""),
        confirmed_by_me=dict(
            what_i_ran="tools/seedconfirm.sh: scratch worktree of /repo HEAD under /tmp: git apply patch.diff; cmake -G Ninja -B _build -DBUILD_TESTS=ON; cmake --build; ctest (all 28 executables); "
                       "g++ -std=c++11 -O1 demo.cpp against the clean /repo (must exit 0) and against the worktree (must exit non-zero); worktree removed afterwards",
            **conf),
        detection=dict(
            own_check="python3 tools/check.py %s --tier quick" % prop, caught_by_own_check=own, rules_that_fired=rules,
            also_or_instead_caught_by=others,
            how_run="tools/seedrun.sh %s  (scratch worktree of /repo HEAD + git apply; VERIF_REPO=<worktree> python3 tools/check.py %s --tier quick; worktree removed)" % (sid, prop)))
    if sid in OUTSIDE and not own:
        meta["detection"]["why_not_caught"] = OUTSIDE[sid]
    if os.path.exists(os.path.join(d, "meta.json")):
        oldm = json.load(open(os.path.join(d, "meta.json")))
        if "note" in oldm:
            meta["note"] = oldm["note"]
    json.dump(meta, open(os.path.join(d, "meta.json"), "w"), indent=1)
    n += 1
print("meta.json written for", n, "round-2/3/4 seeds")
# round-1 seeds: refresh the detection part from the same sweep; table of all seeds
rows = []
for sid in sorted(os.listdir(os.path.join(ROOT, "seeded"))):
    if not re.match(r"C\d\d-[A-H]$", sid):
        continue
    prop = sid.split("-")[0]
    f = os.path.join(DET, sid + ".txt")
    det_txt = open(f).read() if os.path.exists(f) else ""
    m = re.search(r"%s %s rc=(\d+) nviol=(\d+) rules:\s*(.*)" % (sid, prop), det_txt)
    own = bool(m and m.group(1) == "1" and int(m.group(2)) > 0)
    rules = sorted(set(re.findall(r"\d+ ([\w:@*]+)", m.group(3)))) if m else []
    mp = os.path.join(ROOT, "seeded", sid, "meta.json")
    if re.match(r"C\d\d-[AB]$", sid) and os.path.exists(mp) and m:
        meta = json.load(open(mp))
        meta["detection"]["caught_by_own_check"] = own
        meta["detection"]["rules_that_fired"] = rules
        meta["detection"]["last_full_sweep"] = "tools/seedrun.sh %s against the final checks" % sid
        json.dump(meta, open(mp, "w"), indent=1)
    rows.append((sid, "yes" if own else ("NOT RUN" if not m else "no" + (" - " + OUTSIDE[sid] if sid in OUTSIDE else "")), ", ".join(rules)))
with open(os.path.join(ROOT, "seeded", "DETECTION.md"), "w") as fh:
    fh.write("# Seeded changes against the final checks\n\nRounds 1-2 (A-D): results of the session-3 sweep; rounds 3-4 (E-H): swept in session 4 against the checks as committed at its end.\n\nOne scratch worktree of /repo HEAD per seed (`tools/seedrun.sh <seed>`: git apply, `VERIF_REPO=<worktree> python3 tools/check.py <property> --tier quick`, worktree removed).\n\n")
    fh.write("| seed | caught by the property's own quick check | rules that fired |\n|---|---|---|\n")
    for r in rows:
        fh.write("| %s | %s | %s |\n" % r)
    fh.write("\n%d of %d caught.\n" % (sum(1 for r in rows if r[1] == "yes"), len(rows)))
print("DETECTION.md:", sum(1 for r in rows if r[1] == "yes"), "of", len(rows))
