#!/usr/bin/env python3
"""Regenerates /verif/MANIFEST.json from the table below (single source of truth for what is claimed)."""
import json
import os
import subprocess

ROOT = os.path.dirname(os.path.dirname(os.path.abspath(__file__)))

TRUST = ("Trusted: TLC 1.8/SANY/CommunityModules; the guarded hooks report each action where VerifHook.h says; the harness measures "
         "(long double norms, digests, counters) correctly and never judges. Executions are sampled from the stated input families; "
         "design models are exhaustive only for the small constants named in the evidence.")

CHECKS = {
    "C01": dict(cat="model_checking", tech="TLA+ design model (TLC, exhaustive small constants) + TLC trace validation of hook-instrumented solver runs with measured residuals judged by the spec",
                text="IRSolver.tla is model-checked exhaustively (all init/compute histories up to 4 calls, faults, every flag/breakdown choice): flags that are returned always belong to the returned Ritz pairs of a valid factorization. Every recorded execution of SymEigsSolver/HermEigsSolver/SymEigsShiftSolver (random + structured families, 3 scalar types, all rules, partial convergence, second compute, user start vectors) is replayed through the same actions by TLC; at every num_converged and at return the measured residual/norm/orthogonality of every flagged pair is judged by the spec's acceptance formula.",
                ref="6 C01"),
    "C02": dict(cat="model_checking", tech="TLA+ design model + TLC trace validation with measured residuals, reference-spectrum distance and duplicate detection",
                text="Same machinery as C01 for GenEigsSolver/GenEigsRealShiftSolver/GenEigsComplexShiftSolver: measured residual against the user's A, unit norm, distance to the long-double reference spectrum of A (eigenvalues reported in A's spectrum), no duplicated eigenpair, flags fresh at return; histories include second runs on the complex-shift solver.",
                ref="6 C02"),
    "C05": dict(cat="model_checking", tech="TLA+ design model + exact TLC trace validation of public observations against hook events",
                text="Counts/status/ordering/counter clauses are decided exactly: the design model proves the counter and status relations for all histories; trace validation checks on every recorded call that return value = accessor sizes <= nev, status iff all, eigenvectors(m) prefix, ordering by the sorting rule (integer ranks of the library's own keys), num_operations = true applications (counting wrapper, probe solves separated), restarts <= maxit, NotComputed before compute.",
                ref="6 C05"),
    "C07": dict(cat="model_checking", tech="TLC trace validation of per-step Krylov measurements (A V = V H + f e', V'BV = I, V'Bf = 0, shape, advertised k) against Krylov actions of the spec",
                text="At FacInit, every FacStep, FacDone, CompressV of every recorded solver run the harness measures the three identities in long double with its own copy of the operator; the trace spec tracks k through compress_H/compress_V and judges the measurements (bound grows with the number of restarts), the Hessenberg/tridiagonal shape and the advertised dimension.",
                ref="6 C07"),
    "C13": dict(cat="model_checking", tech="TLA+ design model with liveness + exhaustive token-pattern model of nev_adjusted/shift loop + TLC validation of degenerate-input runs with heap canaries",
                text="IRSolver.tla: work bound, restart bound, dimension/shift-index ranges and termination (liveness under fairness) for all histories; NevAdjust.tla: restart size in range and every shift-loop index read in range for ALL token arrangements (ncv<=7) with a negative control; recorded runs on zero/identity/nilpotent/rank-deficient/permutation/orthogonal/skew/tied inputs, scalings 2^-26..2^26, extreme (nev,ncv), maxit from 0: no abort/assertion, documented outcome, finite results, valid operator arguments, heap canaries intact, work bound.",
                ref="6 C13"),
    "C18": dict(cat="model_checking", tech="exhaustive table of the real argsort/SortEigenvalue checked row by row by TLC against SelectionRule.tla (relation, not transcription)",
                text="Every vector of length 0..7 over the tie-rich alphabets x 9 rules x {argsort, SortEigenvalue<real>, SortEigenvalue<complex>}: permutation, ordered by the rule's exact integer key, BothEnds prefix property for every k, rejection of undefined rules; plus random long vectors. The oracle's satisfiability is model-checked.",
                ref="6 C18"),
    "C19": dict(cat="model_checking", tech="ParkMiller.tla (independent double-and-add definition, primitive-root proof by TLC) + full 2^31-2 cycle walk certified at 1024 checkpoints + sampled transitions, seeds, draws, call-site streams",
                text="TLC proves 16807 is a primitive root mod 2^31-1 (single cycle) and Next = Schrage on structured samples; the real next_long_rand is walked over the whole cycle with TLC certifying every 2^21-th state and the end point; seeds of the library's forms normalise into 1..M-1; draws lie in [-0.5,0.5] and equal state/M; the start vector of default init() of three solver classes is the seed-0 stream for first, second and repeated use.",
                ref="6 C19"),
}

NOT_BUILT = "not built yet in this session (work in progress; DESIGN.md section 10 gives the order)"


def main():
    props = [json.loads(l)["id"] for l in open(os.path.join(ROOT, "properties.jsonl"))]
    repo_commits = subprocess.run(["git", "-C", "/repo", "log", "--format=%h %s", "3a98350..HEAD"], stdout=subprocess.PIPE, universal_newlines=True).stdout.strip().split("\n")
    hooks = [c.split()[0] for c in repo_commits if c.split(" ", 1)[1].startswith("verif hooks")]
    checks = []
    for p in props:
        if p not in CHECKS:
            continue
        c = CHECKS[p]
        checks.append(dict(
            property_id=p,
            quick_cmd="python3 tools/check.py %s --tier quick" % p,
            thorough_cmd="python3 tools/check.py %s --tier thorough" % p,
            evidence_file="evidence/%s.json" % p,
            replay_cmd_template="python3 tools/check.py %s --replay {path}" % p,
            engine="tlc",
            level_claimed=dict(category=c["cat"], text=c["text"], design_ref="DESIGN.md section " + c["ref"]),
            level_note=TRUST,
            technique=c["tech"]))
    man = dict(
        version=1,
        setup_cmd="python3 tools/build.py --all",
        hooks=dict(guard="SPECTRA_VERIF",
                   enable="harness drivers are compiled from /repo's working tree by tools/build.py with g++ -std=c++11 -O1 -DSPECTRA_VERIF -I/repo/include",
                   baseline_off_cmd="cmake --build /repo/_build -j16 && ctest --test-dir /repo/_build -j8 --timeout 900",
                   source_commits=hooks, add_only=True),
        engines=[dict(name="tlc", path="/opt/veriftools/tla/tla2tools.jar", serves_properties=sorted(CHECKS),
                      kind_free_text="TLC model checker: exhaustive design configurations (spec/mc/*.cfg) and trace validation (spec/Trace*.tla)")],
        checks=checks,
        not_applicable=[dict(property_id=p, reason=NOT_BUILT) for p in props if p not in CHECKS],
        notes="Model-based verification with explicit TLA+ specifications (spec/*.tla); see DESIGN.md. known_findings.json lists fixed defects and recorded findings.")
    with open(os.path.join(ROOT, "MANIFEST.json"), "w") as fh:
        json.dump(man, fh, indent=1)
    print("MANIFEST.json: %d checks, %d not_applicable" % (len(checks), len(man["not_applicable"])))


if __name__ == "__main__":
    main()
