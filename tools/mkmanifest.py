#!/usr/bin/env python3
"""Regenerates /verif/MANIFEST.json from the table below (single source of truth for what is claimed)."""
import json
import os
import subprocess

ROOT = os.path.dirname(os.path.dirname(os.path.abspath(__file__)))

TRUST = ("Trusted: TLC 1.8/SANY/CommunityModules; the guarded hooks report each action where VerifHook.h says; the harness measures "
         "(long double norms, digests, counters) correctly and never judges. Executions are sampled from the stated input families; "
         "design models are exhaustive only for the small constants named in the evidence.")

CHECKS = {
    "C01": dict(cat="model_checking", tech="TLA+ design model (TLC, exhaustive small constants) + TLC trace validation of hook-instrumented solver runs with measured residuals judged by the spec",
                text="IRSolver.tla is model-checked exhaustively (all init/compute histories up to 4 calls, faults, every flag/breakdown choice): flags that are returned always belong to the returned Ritz pairs of a valid factorization. Every recorded execution of SymEigsSolver/HermEigsSolver/SymEigsShiftSolver (random + structured families, 3 scalar types, all rules, partial convergence, second compute, user start vectors) is replayed through the same actions by TLC; at every num_converged and at return the measured residual/norm/orthogonality of every flagged pair is judged by the spec's acceptance formula. Session 4: near breakdowns down to 1e-15 from an invariant subspace; the public-call contract (IRPublic.PubStep) is judged on every call - after an init() nothing is handed back.",
                ref="6 C01"),
    "C02": dict(cat="model_checking", tech="TLA+ design model + TLC trace validation with measured residuals, reference-spectrum distance and duplicate detection",
                text="Same machinery as C01 for GenEigsSolver/GenEigsRealShiftSolver/GenEigsComplexShiftSolver: measured residual against the user's A, unit norm, distance to the long-double reference spectrum of A (eigenvalues reported in A's spectrum), no duplicated eigenpair, flags fresh at return; histories include second runs on the complex-shift solver.",
                ref="6 C02"),
    "C03": dict(cat="model_checking", tech="TLA+ design model + TLC trace validation of the five generalized modes with measured pencil residual and B-orthonormality",
                text="SymGEigsSolver (Cholesky, RegularInverse) and SymGEigsShiftSolver (ShiftInvert, Buckling, Cayley) in every A/B storage pairing and triangle option (unused triangles poisoned), condition numbers of B up to 2^20: every flagged pair is judged at every num_converged in the iterated operator and at return against the user's pencil (||Ax - lambda Bx||, B-norm, B-orthonormality), with the same history/freshness model as C01.",
                ref="6 C03"),
    "C04": dict(cat="model_checking", tech="exact rational oracle in TLA+ (Transform.tla) for the wanted set of the transformed spectrum, checked on recorded runs with prescribed integer spectra",
                text="Matrices/pencils with prescribed (Gaussian-)integer spectra; on every Successful return TLC computes nu = 1/(l-s), l/(l-s), (l+s)/(l-s), d/(d^2+s^2) as exact fractions, ranks them by the rule (cross-multiplication, BothEnds split) and requires the returned index set to be the wanted set; ambiguous/insufficiently separated cases are skipped and counted. The documented meaning of the rules in shift modes is itself model-checked (MC_Transform).",
                ref="6 C04"),
    "C05": dict(cat="model_checking", tech="TLA+ design model + exact TLC trace validation of public observations against hook events + IRPublic.tla (public-call contract) refined by IRSolver.tla (TLC refinement check) + TLC-generated public call histories executed on all 11 solver classes",
                text="Counts/status/ordering/counter clauses are decided exactly: the design model proves the counter and status relations for all histories; trace validation checks on every recorded call that return value = accessor sizes <= nev, status iff all, eigenvectors(m) prefix, ordering by the sorting rule (integer ranks of the library's own keys), num_operations = true applications (counting wrapper, probe solves separated), restarts <= maxit, NotComputed before compute. Session 4: IRPublic.tla states the contract at the granularity of public calls (big-step relation PubStep: counters, status, count, operator-application bounds, rejected and faulted calls); TLC checks that IRSolver.tla refines it (every return to idle is one PubStep of the projected state; negative control) and generates every public call history up to length 2 (quick) / 3 (thorough), which the drivers execute on all 11 solver classes; TraceIR judges every observed init()/compute() against PubStep using the harness lines alone (no hook event).",
                ref="6 C05"),
    "C06": dict(cat="model_checking", tech="digest equality across TLC-validated call histories + design invariant InitMakesFresh + TLC-generated public call histories (MC_IRPubGen over IRPublic.tla) + operator object re-shifted between solvers",
                text="For every history over {init, init(v1), init(v2), compute(a|b|bad rule), init(0), new object} up to length 3 (sampled in quick, exhaustive for three classes in thorough) the digest of all public results and counters of 'init(v); compute(args)' equals that of a fresh object; the operator is probed before and after every run (shift still in force). The design model proves init() restores the post-init state after every history with faults. Session 4: the histories before the observed pair are generated by TLC from IRPublic.tla (all 1 085 sequences over N I V1 V2 Z C0 C1 C2 C3 F1 up to length 3 in quick, 10 589 up to length 4 in thorough, spread over all 11 classes); in the shift classes the operator object is used with another shift and put back between the baseline and the observed object (token S): the operator probe and the digests must not change.",
                ref="6 C06"),
    "C07": dict(cat="model_checking", tech="TLC-generated call sequences of spec/Krylov.tla (all behaviours up to a length bound, TLC -dump) executed on the real Arnoldi/Lanczos classes and validated by TLC against the same actions (spec -> code -> spec), plus TLC trace validation of per-step Krylov measurements (A V = V H + f e', V'BV = I, V'Bf = 0, shape, advertised k) of recorded solver runs",
                text="TLC enumerates every sequence of public calls of the factorization object (init, rejected init, partial/full factorize_from, empty and rejected factorize_from, compress_H with single and double shifts, compress_V) up to a length bound; harness/drv_krylov.cpp executes each on real/complex/B-inner-product Arnoldi and Lanczos objects with exact, interior and exterior shifts; spec/TraceKrylov.tla replays the record through the same guards/updates, checks subspace_dim, exceptions, unchanged state on rejected calls, operator counts, hook events, the Krylov identities after every hand-over and the similarity/shape relations while shifts are pending. In addition, at FacInit, every FacStep, FacDone, CompressV of every recorded solver run the harness measures the three identities in long double with its own copy of the operator; the trace spec tracks k through compress_H/compress_V and judges the measurements (bound grows with the number of restarts), the Hessenberg/tridiagonal shape and the advertised dimension.",
                ref="6 C07"),
    "C08": dict(cat="model_checking", tech="TLC judges measured QR identities and exact structural facts of UpperHessenbergQR/TridiagQR/DoubleShiftQR runs against QRKernels.tla",
                text="Per-kernel numerical statement: the specification decides exactly the logic_error protocol, the exact zero structure of R and Q'HQ and bit-exact identities on generalized-permutation inputs (trivial rotations); orthogonality, QR = H - sI, similarity, the six apply methods and the double-shift first-column condition are measured in long double on 12 families x 3 shift kinds x 3 scalar types and judged by the spec's c n eps (||H|| + |s|) formulas (sampling of inputs, not proof).",
                ref="6 C08"),
    "C09": dict(cat="model_checking", tech="TLC judges measured backward errors and exact pairing conventions of TridiagEigen/UpperHessenbergSchur/UpperHessenbergEigen against QRKernels.tla",
                text="Exact from the returned bits: zero imaginary parts, adjacent exact conjugates with positive part first, quasi-triangular T with standardised 2x2 blocks, failure only by runtime_error; measured and judged: T Z = Z D, U T U' = H, H x = lambda x, orthogonality, on sizes 2..64, 12 entry patterns (zero matrix, defective 2x2 blocks with zero discriminant, Jordan, companion, graded, deflated, 1e+-100 scalings), 3 scalar types (sampling of inputs, not proof).",
                ref="6 C09"),
    "C10": dict(cat="model_checking", tech="exhaustive small integer matrices with TLC's exact determinant as nonsingularity oracle + measured residuals + four storage variants bit-identical (BKLDLT.tla)",
                text="All symmetric matrices of order <= 3 over {-1,0,1,2} and (strided) order 4 over {-1,0,1} with shifts 0/1: TLC computes the integer determinant; nonsingular => Successful with small residual, singular ternary => NumericalIssue; Lower/Upper x ColMajor/RowMajor give bit-identical solutions (unused triangle poisoned); measured families (SPD, indefinite, zero diagonal, anti-diagonal, block-diagonal, graded, integer, pivot-branch) sizes 1..80 real and complex; status protocol and wrapper exceptions; recompute independent of history.",
                ref="6 C10"),
    "C11": dict(cat="model_checking", tech="configuration-space completeness checked by TLC against MatOp.tla + exact integer products computed by the spec + measured solves with poison-independence digests",
                text="Every product wrapper configuration on integer data with the unused triangle poisoned: the spec computes Sym(A,uplo) x / A x / Hermitian products itself and the result must agree exactly; every solve wrapper configuration (incl. all 64 SymShiftInvert combinations, both Cholesky solves, CG inverse, the five composite generalized operators): residual of the defining equation judged with the condition number, digest independent of the unused triangle, re-factorization on the same object; TLC checks that the exercised configuration set equals the enumerated space.",
                ref="6 C11"),
    "C12": dict(cat="model_checking", tech="exhaustive argument tables of the real constructors/init/compute checked row by row by TLC against ArgCheck.tla",
                text="12 solver classes x n in 1..12 x (nev, ncv) in [-2, n+3]^2, SVD shapes up to 6x6, square-only wrappers for every shape up to 4x4, sigma = 0 in buckling/Cayley, zero start vector, nine rules x {selection, sorting} x maxit in {0,1,30} x seven classes: outcome must be accept / std::invalid_argument exactly as documented, rejected constructions leave no live heap block, the object is usable after a rejected compute().",
                ref="6 C12"),
    "C13": dict(cat="model_checking", tech="TLA+ design model with liveness + exhaustive token-pattern model of nev_adjusted/shift loop + TLC validation of degenerate-input runs with heap canaries + exact-tie spectra at subspace sizes 17..40",
                text="IRSolver.tla: work bound, restart bound, dimension/shift-index ranges and termination (liveness under fairness) for all histories; NevAdjust.tla: restart size in range and every shift-loop index read in range for ALL token arrangements (ncv<=7) with a negative control; recorded runs on zero/identity/nilpotent/rank-deficient/permutation/orthogonal/skew/tied inputs, scalings 2^-26..2^26, extreme (nev,ncv), maxit from 0: no abort/assertion, documented outcome, finite results, valid operator arguments, heap canaries intact, work bound. Apalache discharges the restart-size range over unbounded integers (with a refuted negative control); the thorough tier adds an ASan+UBSan build of the traced harness as auxiliary observation. Session 4: exact ties in the selection key at ncv 17..40 (beyond the small-array paths of std::sort), every rule as selection and as sorting argument; a driver killed by a signal is recorded as an Abort row (violation), not as an infrastructure failure.",
                ref="6 C13"),
    "C14": dict(cat="model_checking", tech="fault enumeration at every operator application index, traces validated by TLC (OpThrows action), digest equality with the fault-free baseline + fault kinds: exception outside std::exception, operator returning NaN so that the library's own wrapper throws; UsableAfterFault",
                text="For six solver classes the wrapper throws a tagged exception at application k for k over the fault-free run's applications (every 3rd/7th in quick, all and pairs in thorough): the same exception reaches the caller, the event prefix is a behaviour of the spec with OpThrows, and init(); compute() afterwards reproduces the fault-free digest; repeated identical executions leave the same number of live heap blocks. Session 4: faults of a type outside the std::exception hierarchy at every application index (incl. the eigenvalue-recovery solves of the complex-shift solver); the user's A operator returning one NaN entry so that the library's own SparseRegularInverse wrapper is what throws; rule UsableAfterFault: the fault-free retry after the fault is removed must not fail; every observed call judged against IRPublic.PubStep (PInitFault / PComputeFault).",
                ref="6 C14"),
    "C15": dict(cat="model_checking", tech="Davidson.tla design model of the search-space bookkeeping, whose operators (DavidsonOps) TLC also replays over the JDIter hook events of every recorded run (sizes, restarts, adjusted parameters) + TLC validation of the recorded results with true residuals + object-level call-history model (compute / compute_with_guess) with a negative control; compute_with_guess() after compute() on one object; opposite-sign LargestMagn family",
                text="Design model: for all (n <= 12, nev, initial, maximal) in the documented domain the small eigenproblem always has at least nev and at most n basis vectors, iterations bounded, documented status. Runs (dense/sparse, four rules, restarts, user guesses, second compute on the same object, correction size below nev): Successful implies compute() = nev, every true residual (recomputed from the harness' own A in long double) below tol, unit norm, orthonormal, ordered by the rule, and the returned set is the wanted end of the reference spectrum; results always finite. Session 4: a compute_with_guess() with another rule and two iterations after a successful compute() on the same object (the status must describe this call); matrices with two wanted eigenvalues of nearly equal magnitude and opposite sign converging at different speeds (the order of the Ritz pairs changes while some are converged).",
                ref="6 C15"),
    "C16": dict(cat="model_checking", tech="TLC-generated call sequences of MC_SVDSeq (all behaviours up to a length bound, TLC -dump) executed on the real PartialSVDSolver and replayed by TLC through the same SV_* operators (spec -> code -> spec); Apalache proves the read invariants inductive for unbounded calls; PartialSVD.tla design model with negative control; TLC validation of recorded runs against a long double reference SVD",
                text="Design model: every sequence of compute/matrix_U/matrix_V up to 6 calls reads the most recent computation and min(k, nconv) columns. Runs (tall/wide/square, dense col/row-major, sparse, rank-deficient, close singular values with partial convergence, two compute() calls per object): finite non-negative non-increasing singular values matching the reference, U'U = V'V = I, AV = US, A'U = VS, column counts for every k and call order, bit-identical to a fresh solver after a second compute().",
                ref="6 C16"),
    "C17": dict(cat="model_checking", tech="LOBPCG.tla shape-algebra design model (with negative control), whose operators (LOBPCGOps) TLC also replays over the LobIter hook events of every recorded run + TLC validation of recorded results against a long double generalized reference + object-level call-history model (compute / setB / compute) with three negative controls",
                text="Design model: all n <= 14, 5k < n, block-size sequences: every product conformable, eigenvectors() is n x k, residuals() n x k. Runs (sparse symmetric incl. indefinite A, SPD B, preconditioner): when info() reports success the eigenvalues are the k smallest ascending, X is n x k with X'BX = I, residuals() = AX - BX Lambda with column norms below tol*n. Session 4: LOBPCG.tla models the object through call histories (StatusDescribesThisCall, IterateIsBOrthonormal; negative controls V_ResetInfo, V_Reorth); the driver runs a second compute() with an unattainable tolerance, setB() with another B followed by compute(), and pencils scaled by 1e-9; defect D20 (stale Success) found and fixed.",
                ref="6 C17"),
    "C18": dict(cat="model_checking", tech="exhaustive table of the real argsort/SortEigenvalue checked row by row by TLC against SelectionRule.tla (relation, not transcription)",
                text="Every vector of length 0..7 over the tie-rich alphabets x 9 rules x {argsort, SortEigenvalue<real>, SortEigenvalue<complex>}: permutation, ordered by the rule's exact integer key, BothEnds prefix property for every k, rejection of undefined rules; plus random long vectors. The oracle's satisfiability is model-checked.",
                ref="6 C18"),
    "C19": dict(cat="model_checking", tech="ParkMiller.tla (independent double-and-add definition, primitive-root proof by TLC) + full 2^31-2 cycle walk certified at 1024 checkpoints + sampled transitions, seeds, draws, call-site streams",
                text="TLC proves 16807 is a primitive root mod 2^31-1 (single cycle) and Next = Schrage on structured samples; the real next_long_rand is walked over the whole cycle with TLC certifying every 2^21-th state and the end point; seeds of the library's forms normalise into 1..M-1; draws lie in [-0.5,0.5] and equal state/M; the start vector of default init() of three solver classes is the seed-0 stream for first, second and repeated use.",
                ref="6 C19"),
    "C20": dict(cat="model_checking", tech="Threads.tla interleaving model over the code's location map (with negative control) + event-for-event identity of concurrent and sequential hook traces + isolated re-execution in a pristine process (server forked before any solver ran)",
                text="Design model: all interleavings of 3 solver instances; private operators and a shared product wrapper are conflict free, a shared shift-solve wrapper is not (negative control). Runs: 2/4/8/16 threads, private or one shared fresh Dense/Sparse Sym/Gen product wrapper, generic and breakdown-heavy jobs: each job's per-thread hook-event stream digest and result digest equal those of the job run alone. The thorough tier adds a ThreadSanitizer build of the same driver as auxiliary observation. Session 4: the isolated re-execution runs in a grandchild of a server process forked before the driver ran its first solver, so function-local statics fixed by whichever solver came first are not inherited.",
                ref="6 C20"),
}

NOT_BUILT = "not built yet in this session (work in progress; DESIGN.md section 10 gives the order)"


def main():
    props = [json.loads(l)["id"] for l in open(os.path.join(ROOT, "properties.jsonl"))]
    repo_commits = subprocess.run(["git", "-C", "/repo", "log", "--format=%h %s", "3a98350..HEAD"], stdout=subprocess.PIPE, universal_newlines=True).stdout.strip().split("\n")
    hooks = [c.split()[0] for c in repo_commits if c.split(" ", 1)[1].startswith("verif hooks")]
    checks = []
    for p in props:
        if p not in CHECKS:
            continue
        c = CHECKS[p]
        checks.append(dict(
            property_id=p,
            quick_cmd="python3 tools/check.py %s --tier quick" % p,
            thorough_cmd="python3 tools/check.py %s --tier thorough" % p,
            evidence_file="evidence/%s.json" % p,
            replay_cmd_template="python3 tools/check.py %s --replay {path}" % p,
            engine="tlc",
            level_claimed=dict(category=c["cat"], text=c["text"], design_ref="DESIGN.md section " + c["ref"]),
            level_note=TRUST,
            technique=c["tech"]))
    man = dict(
        version=1,
        setup_cmd="python3 tools/build.py --all",
        hooks=dict(guard="SPECTRA_VERIF",
                   enable="harness drivers are compiled from /repo's working tree by tools/build.py with g++ -std=c++11 -O1 -DSPECTRA_VERIF -I/repo/include",
                   baseline_off_cmd="cmake --build /repo/_build -j16 && ctest --test-dir /repo/_build -j8 --timeout 900",
                   source_commits=hooks, add_only=True),
        engines=[dict(name="tlc", path="/opt/veriftools/tla/tla2tools.jar", serves_properties=sorted(CHECKS),
                      kind_free_text="TLC model checker: exhaustive design configurations (spec/mc/*.cfg) and trace validation (spec/Trace*.tla)")],
        checks=checks,
        not_applicable=[dict(property_id=p, reason=NOT_BUILT) for p in props if p not in CHECKS],
        notes="Model-based verification with explicit TLA+ specifications (spec/*.tla); see DESIGN.md. known_findings.json lists fixed defects and recorded findings.")
    with open(os.path.join(ROOT, "MANIFEST.json"), "w") as fh:
        json.dump(man, fh, indent=1)
    print("MANIFEST.json: %d checks, %d not_applicable" % (len(checks), len(man["not_applicable"])))


if __name__ == "__main__":
    main()
