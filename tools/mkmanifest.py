#!/usr/bin/env python3
"""Regenerates /verif/MANIFEST.json from the table below (single source of truth for what is claimed)."""
import json
import os
import subprocess

ROOT = os.path.dirname(os.path.dirname(os.path.abspath(__file__)))

TRUST = ("Trusted: TLC 1.8/SANY/CommunityModules; the guarded hooks report each action where VerifHook.h says; the harness measures "
         "(long double norms, digests, counters) correctly and never judges. Executions are sampled from the stated input families; "
         "design models are exhaustive only for the small constants named in the evidence.")

CHECKS = {
    "C01": dict(cat="model_checking", tech="TLA+ design model (TLC, exhaustive small constants) + TLC trace validation of hook-instrumented solver runs with measured residuals judged by the spec",
                text="IRSolver.tla is model-checked exhaustively (all init/compute histories up to 4 calls, faults, every flag/breakdown choice): flags that are returned always belong to the returned Ritz pairs of a valid factorization. Every recorded execution of SymEigsSolver/HermEigsSolver/SymEigsShiftSolver (random + structured families, 3 scalar types, all rules, partial convergence, second compute, user start vectors) is replayed through the same actions by TLC; at every num_converged and at return the measured residual/norm/orthogonality of every flagged pair is judged by the spec's acceptance formula.",
                ref="6 C01"),
    "C02": dict(cat="model_checking", tech="TLA+ design model + TLC trace validation with measured residuals, reference-spectrum distance and duplicate detection",
                text="Same machinery as C01 for GenEigsSolver/GenEigsRealShiftSolver/GenEigsComplexShiftSolver: measured residual against the user's A, unit norm, distance to the long-double reference spectrum of A (eigenvalues reported in A's spectrum), no duplicated eigenpair, flags fresh at return; histories include second runs on the complex-shift solver.",
                ref="6 C02"),
    "C03": dict(cat="model_checking", tech="TLA+ design model + TLC trace validation of the five generalized modes with measured pencil residual and B-orthonormality",
                text="SymGEigsSolver (Cholesky, RegularInverse) and SymGEigsShiftSolver (ShiftInvert, Buckling, Cayley) in every A/B storage pairing and triangle option (unused triangles poisoned), condition numbers of B up to 2^20: every flagged pair is judged at every num_converged in the iterated operator and at return against the user's pencil (||Ax - lambda Bx||, B-norm, B-orthonormality), with the same history/freshness model as C01.",
                ref="6 C03"),
    "C04": dict(cat="model_checking", tech="exact rational oracle in TLA+ (Transform.tla) for the wanted set of the transformed spectrum, checked on recorded runs with prescribed integer spectra",
                text="Matrices/pencils with prescribed (Gaussian-)integer spectra; on every Successful return TLC computes nu = 1/(l-s), l/(l-s), (l+s)/(l-s), d/(d^2+s^2) as exact fractions, ranks them by the rule (cross-multiplication, BothEnds split) and requires the returned index set to be the wanted set; ambiguous/insufficiently separated cases are skipped and counted. The documented meaning of the rules in shift modes is itself model-checked (MC_Transform).",
                ref="6 C04"),
    "C05": dict(cat="model_checking", tech="TLA+ design model + exact TLC trace validation of public observations against hook events",
                text="Counts/status/ordering/counter clauses are decided exactly: the design model proves the counter and status relations for all histories; trace validation checks on every recorded call that return value = accessor sizes <= nev, status iff all, eigenvectors(m) prefix, ordering by the sorting rule (integer ranks of the library's own keys), num_operations = true applications (counting wrapper, probe solves separated), restarts <= maxit, NotComputed before compute.",
                ref="6 C05"),
    "C06": dict(cat="model_checking", tech="digest equality across TLC-validated call histories + design invariant InitMakesFresh",
                text="For every history over {init, init(v1), init(v2), compute(a|b|bad rule), init(0), new object} up to length 3 (sampled in quick, exhaustive for three classes in thorough) the digest of all public results and counters of 'init(v); compute(args)' equals that of a fresh object; the operator is probed before and after every run (shift still in force). The design model proves init() restores the post-init state after every history with faults.",
                ref="6 C06"),
    "C07": dict(cat="model_checking", tech="TLC trace validation of per-step Krylov measurements (A V = V H + f e', V'BV = I, V'Bf = 0, shape, advertised k) against Krylov actions of the spec",
                text="At FacInit, every FacStep, FacDone, CompressV of every recorded solver run the harness measures the three identities in long double with its own copy of the operator; the trace spec tracks k through compress_H/compress_V and judges the measurements (bound grows with the number of restarts), the Hessenberg/tridiagonal shape and the advertised dimension.",
                ref="6 C07"),
    "C12": dict(cat="model_checking", tech="exhaustive argument tables of the real constructors/init/compute checked row by row by TLC against ArgCheck.tla",
                text="12 solver classes x n in 1..12 x (nev, ncv) in [-2, n+3]^2, SVD shapes up to 6x6, square-only wrappers for every shape up to 4x4, sigma = 0 in buckling/Cayley, zero start vector, nine rules x {selection, sorting} x maxit in {0,1,30} x seven classes: outcome must be accept / std::invalid_argument exactly as documented, rejected constructions leave no live heap block, the object is usable after a rejected compute().",
                ref="6 C12"),
    "C13": dict(cat="model_checking", tech="TLA+ design model with liveness + exhaustive token-pattern model of nev_adjusted/shift loop + TLC validation of degenerate-input runs with heap canaries",
                text="IRSolver.tla: work bound, restart bound, dimension/shift-index ranges and termination (liveness under fairness) for all histories; NevAdjust.tla: restart size in range and every shift-loop index read in range for ALL token arrangements (ncv<=7) with a negative control; recorded runs on zero/identity/nilpotent/rank-deficient/permutation/orthogonal/skew/tied inputs, scalings 2^-26..2^26, extreme (nev,ncv), maxit from 0: no abort/assertion, documented outcome, finite results, valid operator arguments, heap canaries intact, work bound.",
                ref="6 C13"),
    "C14": dict(cat="model_checking", tech="fault enumeration at every operator application index, traces validated by TLC (OpThrows action), digest equality with the fault-free baseline",
                text="For six solver classes the wrapper throws a tagged exception at application k for k over the fault-free run's applications (every 3rd/7th in quick, all and pairs in thorough): the same exception reaches the caller, the event prefix is a behaviour of the spec with OpThrows, and init(); compute() afterwards reproduces the fault-free digest; repeated identical executions leave the same number of live heap blocks.",
                ref="6 C14"),
    "C18": dict(cat="model_checking", tech="exhaustive table of the real argsort/SortEigenvalue checked row by row by TLC against SelectionRule.tla (relation, not transcription)",
                text="Every vector of length 0..7 over the tie-rich alphabets x 9 rules x {argsort, SortEigenvalue<real>, SortEigenvalue<complex>}: permutation, ordered by the rule's exact integer key, BothEnds prefix property for every k, rejection of undefined rules; plus random long vectors. The oracle's satisfiability is model-checked.",
                ref="6 C18"),
    "C19": dict(cat="model_checking", tech="ParkMiller.tla (independent double-and-add definition, primitive-root proof by TLC) + full 2^31-2 cycle walk certified at 1024 checkpoints + sampled transitions, seeds, draws, call-site streams",
                text="TLC proves 16807 is a primitive root mod 2^31-1 (single cycle) and Next = Schrage on structured samples; the real next_long_rand is walked over the whole cycle with TLC certifying every 2^21-th state and the end point; seeds of the library's forms normalise into 1..M-1; draws lie in [-0.5,0.5] and equal state/M; the start vector of default init() of three solver classes is the seed-0 stream for first, second and repeated use.",
                ref="6 C19"),
}

NOT_BUILT = "not built yet in this session (work in progress; DESIGN.md section 10 gives the order)"


def main():
    props = [json.loads(l)["id"] for l in open(os.path.join(ROOT, "properties.jsonl"))]
    repo_commits = subprocess.run(["git", "-C", "/repo", "log", "--format=%h %s", "3a98350..HEAD"], stdout=subprocess.PIPE, universal_newlines=True).stdout.strip().split("\n")
    hooks = [c.split()[0] for c in repo_commits if c.split(" ", 1)[1].startswith("verif hooks")]
    checks = []
    for p in props:
        if p not in CHECKS:
            continue
        c = CHECKS[p]
        checks.append(dict(
            property_id=p,
            quick_cmd="python3 tools/check.py %s --tier quick" % p,
            thorough_cmd="python3 tools/check.py %s --tier thorough" % p,
            evidence_file="evidence/%s.json" % p,
            replay_cmd_template="python3 tools/check.py %s --replay {path}" % p,
            engine="tlc",
            level_claimed=dict(category=c["cat"], text=c["text"], design_ref="DESIGN.md section " + c["ref"]),
            level_note=TRUST,
            technique=c["tech"]))
    man = dict(
        version=1,
        setup_cmd="python3 tools/build.py --all",
        hooks=dict(guard="SPECTRA_VERIF",
                   enable="harness drivers are compiled from /repo's working tree by tools/build.py with g++ -std=c++11 -O1 -DSPECTRA_VERIF -I/repo/include",
                   baseline_off_cmd="cmake --build /repo/_build -j16 && ctest --test-dir /repo/_build -j8 --timeout 900",
                   source_commits=hooks, add_only=True),
        engines=[dict(name="tlc", path="/opt/veriftools/tla/tla2tools.jar", serves_properties=sorted(CHECKS),
                      kind_free_text="TLC model checker: exhaustive design configurations (spec/mc/*.cfg) and trace validation (spec/Trace*.tla)")],
        checks=checks,
        not_applicable=[dict(property_id=p, reason=NOT_BUILT) for p in props if p not in CHECKS],
        notes="Model-based verification with explicit TLA+ specifications (spec/*.tla); see DESIGN.md. known_findings.json lists fixed defects and recorded findings.")
    with open(os.path.join(ROOT, "MANIFEST.json"), "w") as fh:
        json.dump(man, fh, indent=1)
    print("MANIFEST.json: %d checks, %d not_applicable" % (len(checks), len(man["not_applicable"])))


if __name__ == "__main__":
    main()
