#!/bin/bash
# usage: runall.sh <tier> <outdir> [parallel] -- every registered check on /repo's current tree; one line per check
tier="${1:-quick}"; out="${2:-/tmp/runall}"; par="${3:-4}"
mkdir -p "$out"; rm -f "$out"/*.txt
cd "$(dirname "$0")/.."
for c in C01 C02 C03 C04 C05 C06 C07 C08 C09 C10 C11 C12 C13 C14 C15 C16 C17 C18 C19 C20; do echo $c; done | \
  xargs -P "$par" -I{} sh -c "python3 tools/check.py {} --tier $tier > $out/{}.txt 2>&1; echo \"{} rc=\$? \$(grep -c '^VIOLATION' $out/{}.txt) violations \$(grep -c '^KNOWN-FINDING' $out/{}.txt) known \$(grep -E 'INFRA' $out/{}.txt | cut -c1-160)\""
