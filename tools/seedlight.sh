#!/bin/bash
# usage: seedlight.sh <seed id> <out.json>
# Light re-confirmation of a seeded change against /repo HEAD (no test-suite run): the patch applies, and the demonstration exits 0 on the clean
# tree and non-zero on the changed tree.  Used to re-validate seeds of earlier sessions after later fix: commits (the full confirmation,
# including the repository's whole test suite, is tools/seedconfirm.sh).
id="$1"; out="$2"; src=/verif/seeded/$id
wt=/tmp/seedlight_wt_${id}_$$
lock=/tmp/seedrun.lock
flock $lock sh -c "git -C /repo worktree remove --force $wt >/dev/null 2>&1; git -C /repo worktree prune; git -C /repo worktree add --detach $wt HEAD >/dev/null 2>&1" || { echo "{\"error\":\"worktree\"}" > "$out"; exit 0; }
applies=true; demo_clean=na; demo_changed=na
( cd $wt && git apply "$src/patch.diff" ) 2>/dev/null || applies=false
if $applies; then
  g++ -std=c++11 -O1 -I/repo/include -I/usr/include/eigen3 "$src/demo.cpp" -o /tmp/seedlight_d0_${id}_$$ -pthread 2>/dev/null && { timeout 600 /tmp/seedlight_d0_${id}_$$ >/dev/null 2>&1; demo_clean=$?; }
  g++ -std=c++11 -O1 -I$wt/include -I/usr/include/eigen3 "$src/demo.cpp" -o /tmp/seedlight_d1_${id}_$$ -pthread 2>/dev/null && { timeout 600 /tmp/seedlight_d1_${id}_$$ >/dev/null 2>&1; demo_changed=$?; }
fi
echo "{\"patch_applies_at_head\": $applies, \"demo_exit_on_clean_tree\": \"$demo_clean\", \"demo_exit_with_change\": \"$demo_changed\", \"head\": \"$(git -C /repo rev-parse --short HEAD)\"}" > "$out"
rm -f /tmp/seedlight_d0_${id}_$$ /tmp/seedlight_d1_${id}_$$
flock $lock git -C /repo worktree remove --force $wt >/dev/null 2>&1
cat "$out"
