#!/usr/bin/env python3
"""Writes seeded/<id>/meta.json from the confirmation results (scratch worktree runs) and the detection table."""
import json, os, sys
ROOT = os.path.dirname(os.path.dirname(os.path.abspath(__file__)))
CONF = sys.argv[1] if len(sys.argv) > 1 else "/tmp/seedconfirm"
NEEDS = {
 "C01-A": "bipartite matrix [0 B; B' 0] with a start vector supported on one part (exactly zero diagonal of the Lanczos matrix)",
 "C01-B": "second compute() without init() that stops at its first convergence check (e.g. maxit = 0 after a partial run, or a shift solver run twice)",
 "C02-A": "history init(); compute(); compute() on a general solver (shift solvers, or unfinished first run with sorting != selection)",
 "C02-B": "NotConverging outcome with 0 < nconv < nev and a final order different from the selection order",
 "C03-A": "SymShiftInvert with dense A and different triangle options for A and B",
 "C03-B": "Lanczos breakdown in a mode with B-inner product (operator maps the start vector to 0 / tiny operator norm)",
 "C04-A": "init(); compute(rule1); compute(rule2) on a Hermitian-family solver without a new init()",
 "C04-B": "BothEnds with odd nev",
 "C05-A": "partly converged run (0 < count < nev) with a sorting that puts an unconverged pair before a converged one",
 "C05-B": "Krylov breakdown (expand_basis applies the operator): low rank or start vector in a small invariant subspace",
 "C06-A": "reused solver object and init(v) with v an exact eigenvector (residual exactly zero)",
 "C06-B": "regular-inverse mode with the sparse CG operator used before (second solver / re-run), bitwise comparison",
 "C07-A": "generalized mode with B != I and a start vector the operator maps exactly to zero",
 "C07-B": "operator of low rank r with ncv > r + 1 (the range of A is exhausted)",
 "C08-A": "pivot/subdiagonal ratio in the Taylor-branch window 1e-7..1.2e-5 of the stable Givens computation",
 "C08-B": "exact zero in the first double-shift reflector (s = H00 + H11, or integer data with exact cancellation)",
 "C09-A": "2x2 diagonal block with an exactly zero discriminant (repeated defective eigenvalue, integer data)",
 "C09-B": "tridiagonal matrix with non-positive diagonal and all sub-diagonals exactly zero",
 "C10-A": "trailing / isolated block [small big; big 0] (e.g. [0 1; 1 0], shifts equal to a diagonal entry)",
 "C10-B": "complex Hermitian input, row-major storage and Upper triangle together",
 "C11-A": "SymShiftInvert with sparse A, dense B and different triangle options, other triangle not a mirror",
 "C11-B": "set_shift() twice on the same wrapper with an earlier factorization that pivoted",
 "C12-A": "solver built through the rvalue-operator constructor (generalized solvers) with ncv in n+1..n+3",
 "C12-B": "general solver, unsupported sorting rule, run in which nothing has converged (maxit 0 or 1)",
 "C13-A": "ncv = nev + 2, exact breakdown onto a 2-dimensional invariant subspace, complex last Ritz value",
 "C13-B": "Lanczos-family solver, BothEnds, odd ncv (8-byte heap write past a std::vector)",
 "C14-A": "generalized solver with a B-inner product and a fault in the B operator during a norm() call",
 "C14-B": "breakdown input and a fault at the operator application inside expand_basis()",
 "C15-A": "restart of the search space with a Ritz-value order change, or a second compute() on the same object",
 "C15-B": "set_correction_size(c) with c < nev",
 "C16-A": "matrix_U(k1) followed by matrix_V(k2) with k2 > k1 on one solver",
 "C16-B": "partial convergence with a hole in the converged set (two close wanted singular values, small maxit)",
 "C17-A": "a preconditioner that shrinks the residual and exit through the in-loop convergence test",
 "C17-B": "at least one of the k smallest eigenvalues negative (indefinite A)",
 "C18-A": "BothEnds with an odd length",
 "C18-B": "undefined rule together with length <= 1",
 "C19-A": "the single generator state 868985321 (of 2^31 - 2)",
 "C19-B": "a second default init() of the same GenEigsBase instantiation (second object or repeated init)",
 "C20-A": "two concurrent solvers of the same type that both hit a Krylov breakdown",
 "C20-B": "one SparseSymMatProd wrapper shared by threads and still unused when they start",
}
OTHER = {"C04-A": ["C01", "C05"], "C16-B": ["C05"]}
REBASED = {"C06-B": "rebased by hand onto the tree after fix 082f617 (same line of SparseRegularInverse.h)",
           "C07-A": "rebased by hand onto the tree after fix 94847c8 (Arnoldi::init reordered)"}
for sid in sorted(os.listdir(os.path.join(ROOT, "seeded"))):
    d = os.path.join(ROOT, "seeded", sid)
    if not os.path.isdir(d):
        continue
    conf = {}
    p = os.path.join(CONF, sid + ".json")
    if os.path.exists(p):
        conf = json.load(open(p))
    prop = sid.split("-")[0]
    own = sid not in OTHER
    meta = dict(
        seed=sid, breaks_property=prop, author="independent sub-agent (saw only the property text and a scratch worktree)",
        needs_to_manifest=NEEDS.get(sid, ""),
        confirmed_by_me=dict(
            what_i_ran="scratch worktree of /repo HEAD under /tmp: git apply patch.diff; cmake -G Ninja -B _build -DBUILD_TESTS=ON; cmake --build; ctest (all 28 executables); "
                       "g++ -std=c++11 -O1 demo.cpp against the clean /repo (must exit 0) and against the worktree (must exit non-zero); worktree removed afterwards",
            patch_applies=bool(conf.get("applies")), test_suite_with_change=conf.get("suite", "not run"),
            demo_exit_on_clean_tree=conf.get("demo_clean_exit", "not run"), demo_exit_with_change=conf.get("demo_mutated_exit", "not run")),
        detection=dict(
            own_check="python3 tools/check.py %s --tier quick" % prop, caught_by_own_check=own,
            also_or_instead_caught_by=OTHER.get(sid, []),
            how_run="tools/seedtest.sh seeded/%s/patch.diff %s  (git -C /repo apply; run; git -C /repo checkout -- .)" % (sid, prop)))
    if sid in REBASED:
        meta["note"] = REBASED[sid]
    json.dump(meta, open(os.path.join(d, "meta.json"), "w"), indent=1)
print("meta.json written for", len(os.listdir(os.path.join(ROOT, "seeded"))), "seeds")
