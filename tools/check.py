#!/usr/bin/env python3
"""Entry point of every registered check:   python3 tools/check.py <property> [--tier quick|thorough] [--replay DIR]

exit 0  the property held on everything explored (KNOWN-FINDING lines possible)
exit 1  + 'VIOLATION property=<id> replay=<path>': a monitor of this property fired on a recorded execution of the
        real code (and fired again when that execution was re-run on its own)
exit 2  infrastructure failure (build, TLC error, unexplained trace); never used for something the code was shown to do
"""
import argparse
import json
import os
import random
import sys
import time
import traceback

ROOT = os.path.dirname(os.path.dirname(os.path.abspath(__file__)))
sys.path.insert(0, os.path.join(ROOT, "tools"))
import build as B      # noqa: E402
import vlib as V       # noqa: E402
import irprof as P     # noqa: E402


def log(*a):
    print(*a, flush=True)


# =============================================================================================== IR-family flow
def rule_matches(rule, own):
    for o in own:
        if o.endswith("*"):
            if rule.startswith(o[:-1]):
                return True
        elif rule == o:
            return True
    return False


def ir_execute(prop, descs, wd, nproc=16, timeout=900, trace_module="TraceIR.tla", trace_cfg="TraceIR.cfg", tlc_jobs=8, driver_of=None, env=None):
    """Build, run the drivers on the descriptors, validate all traces with TLC.  Returns (driver results, tlc results)."""
    driver_of = driver_of or P.driver_of
    groups = {}
    for d in descs:
        groups.setdefault(driver_of(d), []).append(d)
    paths = B.build(sorted(groups), quiet=False)
    jobs = [(paths[t], ds) for t, ds in sorted(groups.items())]
    dres = V.run_drivers(jobs, wd, nproc=nproc, timeout=timeout, env=env)
    traces = [r["file"] for r in dres if os.path.exists(r["file"]) and os.path.getsize(r["file"]) > 0]
    tres = V.run_traces(trace_module, trace_cfg, traces, jobs=tlc_jobs)
    return dres, tres


def ir_flow(prop, tier, seed, descs, own, models, level_note_assumptions, t0, hang_is_violation=False,
            trace_module="TraceIR.tla", trace_cfg="TraceIR.cfg", driver_of=None, extra_cov=None, level="model_checking",
            extra_stages=None, neg_models=None, proofs=None):
    known = V.load_known()
    wd = V.workdir(prop)
    # an integer outside TLC's 32-bit range in a trace can only be garbage produced by the code under test (vh.h writes a sentinel and an
    # OutOfRange row): whichever property is being checked cannot hold on that execution
    # ... and a crash of the process (signal, failed assertion, std::terminate: rule Abort) is never compatible with any property
    own = list(own) + ["OutOfRange", "Abort"]
    stages = [dict(descs=descs, trace_module=trace_module, trace_cfg=trace_cfg, driver_of=driver_of or P.driver_of)] + (extra_stages or [])
    # ---- design models first (cheap): the specification itself satisfies the property for small constants
    mres = []
    for (module, cfg, workers) in models:
        r = V.run_model(module, os.path.join(V.SPEC, "mc", cfg), workers=workers, name=prop + "_" + cfg)
        log("[model] %-28s %s states=%d wall=%.1fs %s" % (cfg, "ok" if r["ok"] else "FAILED", r["states"], r["wall"], r["violated"]))
        mres.append(r)
        if not r["ok"]:
            log(r["tail"])
            raise V.Infra("design model %s does not hold / did not run: %s" % (cfg, r["violated"]))
    # negative controls: a configuration with the known design flaw switched on MUST be rejected by TLC (non-vacuity of the model)
    nres = []
    for (module, cfg, workers) in (neg_models or []):
        r = V.run_model(module, os.path.join(V.SPEC, "mc", cfg), workers=workers, name=prop + "_" + cfg)
        log("[model] %-28s negative control: %s" % (cfg, "violated as expected " + str(r["violated"]) if r["violated"] else "NOT violated"))
        nres.append(r)
        if not r["violated"]:
            raise V.Infra("negative control %s was not rejected by TLC: the design model is vacuous" % cfg)
    # ---- unbounded obligations (Apalache): (spec, invariant, expected to hold?)
    pres = []
    for pr in (proofs or []):
        spec_rel, inv, expect = pr[0], pr[1], pr[2]
        r = V.run_apalache(spec_rel, inv, expect, **(pr[3] if len(pr) > 3 else {}))
        log("[proof] %-28s %-10s %s (%.0fs)" % (spec_rel, inv, ("proved" if r["proved"] else "refuted" if r["refuted"] else "NO RESULT"), r["wall"]))
        pres.append(r)
        if not r["as_expected"]:
            log(r["tail"])
            raise V.Infra("Apalache obligation %s/%s did not come out as expected" % (spec_rel, inv))
    # ---- executions of the real code
    dres, tres = [], []
    for si, st in enumerate(stages):
        wds = wd if si == 0 else V.workdir("%s_s%d" % (prop, si))
        d1, t1 = ir_execute(prop, st["descs"], wds, trace_module=st["trace_module"], trace_cfg=st["trace_cfg"], driver_of=st["driver_of"], env=st.get("env"))
        for x in d1:
            x["stage"] = si
        for x in t1:
            x["stage"] = si
        dres += d1
        tres += t1
    violations = []   # (rule, desc, tracefile, runidx, hit, stage)
    knownhits = []
    others = {}
    cov = {}
    nruns = 0
    nstates = 0
    nlines = 0
    allhits = []
    for r in dres:
        if r["timeout"]:
            ds, n, complete = V.trace_runs(r["file"]) if os.path.exists(r["file"]) else ([], 0, True)
            d = ds[-1] if ds else (r["descs"][0] if r["descs"] else "?")
            violations.append(("Hang", d, r["file"], len(ds), dict(r="Hang", l=n), r["stage"]))
        elif r["rc"] == 66 and stages[r["stage"]].get("sanitizer"):
            # a sanitizer report (exit code chosen through *SAN_OPTIONS=exitcode=66)
            d = r["descs"][0] if r["descs"] else "?"
            violations.append((stages[r["stage"]]["sanitizer"], d, r["file"], 1, dict(r=stages[r["stage"]]["sanitizer"], l=0, err=r["err"][-1500:]), r["stage"]))
        elif r["rc"] != 0:
            raise V.Infra("driver %s exited with %d: %s" % (r["binary"], r["rc"], r["err"][-800:]))
    for t in tres:
        if t["status"] != "ok":
            raise V.Infra("trace %s not consumed by %s (status %s):\n%s" % (t["trace"], stages[t["stage"]]["trace_module"], t["status"], t["stdout_tail"]))
        ds, n, complete = V.trace_runs(t["trace"])
        nruns += len(ds)
        nstates += t["states"]
        nlines += t["lines"]
        for k, v in t["cov"].items():
            cov[k] = cov.get(k, 0) + v
        for h in t["hits"]:
            d = ds[h["run"] - 1] if 0 < h["run"] <= len(ds) else "?"
            if rule_matches(h["r"], own):
                violations.append((h["r"], d, t["trace"], h["run"], h, t["stage"]))
            else:
                others[h["r"]] = others.get(h["r"], 0) + 1
            allhits.append(dict(rule=h["r"], desc=d, trace=t["trace"], run=h["run"], line=h["l"]))
    with open(os.path.join(wd, "allhits.json"), "w") as fh:
        json.dump(allhits, fh, indent=1)
    # ---- confirm every violation by re-running its descriptor alone; known findings are listed, not raised
    confirmed = []
    for i, (rule, d, tf, runidx, h, stg) in enumerate(violations):
        kf = V.is_known(known, prop, rule, d)
        if kf:
            knownhits.append((rule, d, kf))
            continue
        if len(confirmed) >= 5:
            confirmed.append((rule, d, tf, runidx, h, None, stg))
            continue
        wd2 = V.workdir(prop + "_re%d" % i)
        ok_again = False
        st = stages[stg]
        try:
            dres2, tres2 = ir_execute(prop, [d], wd2, nproc=1, timeout=300, trace_module=st["trace_module"], trace_cfg=st["trace_cfg"], driver_of=st["driver_of"], env=st.get("env"))
            if rule == "Hang":
                ok_again = any(r["timeout"] for r in dres2)
            elif st.get("sanitizer") == rule:
                ok_again = any(r["rc"] == 66 for r in dres2)
            else:
                ok_again = any(hh["r"] == rule for t in tres2 for hh in t.get("hits", []))
        except Exception as e:  # noqa
            log("[recheck] could not re-run: %s" % e)
        if ok_again:
            confirmed.append((rule, d, tf, runidx, h, wd2, stg))
        else:
            log("[recheck] hit %s on '%s' did NOT reproduce on an immediate re-run; not reported" % (rule, d))
            others["unreproduced:" + rule] = others.get("unreproduced:" + rule, 0) + 1
    nviol = 0
    for i, (rule, d, tf, runidx, h, wd2, stg) in enumerate(confirmed):
        if rule == "Hang" and not hang_is_violation:
            raise V.Infra("driver hang on descriptor %s" % d)
        path = V.save_replay(prop, i, d, stages[stg]["driver_of"](d), tf, runidx, [h],
                             extra=dict(trace_module=stages[stg]["trace_module"], trace_cfg=stages[stg]["trace_cfg"], env=stages[stg].get("env")))
        if nviol < 12:
            log("VIOLATION property=%s replay=%s rule=%s desc=%s" % (prop, path, rule, d))
        elif nviol == 12:
            log("... further violations of %s not listed individually" % prop)
        nviol += 1
    seen_known = set()
    for rule, d, kf in knownhits:
        if (rule, d) in seen_known:
            continue
        seen_known.add((rule, d))
        log("KNOWN-FINDING: property=%s %s (rule %s, descriptor %s)" % (prop, kf.get("what_fails", ""), rule, d))
    mstates = sum(m["states"] for m in mres)
    mgen = sum(m["generated"] for m in mres)
    coverage = dict(
        states=mstates + nstates, transitions=mgen + nlines,
        traces_validated_against_impl=nruns,
        samples=[x for st in stages for x in st["descs"][:3]][:6],
        design_models=[dict(cfg=m["cfg"], states=m["states"], generated=m["generated"], wall_s=round(m["wall"], 1)) for m in mres],
        negative_controls=[dict(cfg=m["cfg"], rejected=m["violated"]) for m in nres],
        apalache_obligations=[dict(spec=r["spec"], inv=r["inv"], init=r.get("init"), length=r.get("length"), proved=r["proved"], refuted=r["refuted"], wall_s=round(r["wall"], 1)) for r in pres],
        trace_events=nlines, trace_spec=sorted(set(st["trace_module"] for st in stages)), monitors=sorted(own),
        coverage_counters=cov, other_rule_hits=others,
        known_findings_seen=[dict(rule=r, descriptor=d) for r, d, _ in knownhits],
        executions=nruns, exhaustive=False)
    if extra_cov:
        coverage.update(extra_cov)
    V.write_evidence(prop, tier, seed, level, coverage, level_note_assumptions, time.time() - t0, nviol)
    log("[%s] executions=%d events=%d design_states=%d violations=%d known=%d other_hits=%s wall=%.0fs" %
        (prop, nruns, nlines, mstates, nviol, len(knownhits), others, time.time() - t0))
    return 1 if nviol else 0


COMMON_ASSUME = [
    "TLC 1.8 / SANY / CommunityModules Json+IOUtils evaluate the specification correctly",
    "the guarded hooks (SPECTRA_VERIF) report each action at the point and with the values VerifHook.h documents",
    "the harness measures norms/digests/counters correctly (long double arithmetic); it never judges",
    "sampled inputs: the executions validated are those of the generated descriptors, not all inputs",
]

PROTO = ["G:*", "I:TypeOK", "UnknownEvent*", "UnknownCall", "UnknownRet", "EndedMidCall", "ComputeReturnedMidway", "InitReturnedWithoutInit"]


def fn_driver(d):
    return "drv_fn"


def n_of(tier, q, t):
    return q if tier == "quick" else t


def check_C05(tier, seed, t0):
    rng = random.Random(1000 + seed)
    descs = P.herm_basic(rng, n_of(tier, 90, 900), types=("d", "d", "f", "l") if tier == "thorough" else ("d",), meas=0)
    descs += P.gen_basic(rng, n_of(tier, 70, 700), types=("d", "d", "f", "l") if tier == "thorough" else ("d",), meas=0, ref=0)
    # breakdown-heavy inputs (zero, identity, low rank, few distinct eigenvalues): expand_basis() applies the operator too, and retries without
    descs += P.degenerate(rng, n_of(tier, 90, 900), types=("d",))
    # every public call history generated by TLC from IRPublic.tla (length <= 2 / <= 3), spread over the 11 solver classes
    import krygen
    seqs, ginfo = krygen.pub_sequences(n_of(tier, 2, 3))
    if not ginfo["ok"]:
        raise V.Infra("MC_IRPubGen failed: %s" % ginfo.get("stdout_tail", ""))
    descs += P.pub_history_descs(rng, seqs, per_seq=n_of(tier, 2, 3))
    own = PUB + ["RetEqSizes", "RetEqComputeEnd", "StatusIffAll", "StatusDocumented", "AccessorsEqComputeEnd", "SortedBy", "PrefixColumns",
           "OpsEqTrue*", "ValsEqCols", "CountLeNev", "NotComputedBefore", "FlagsEqCount", "RowsEqN", "ArgsForwarded", "SelectionForwarded",
           "SortingForwarded", "I:RestartsBounded", "I:CountsAgree", "I:OpsCounted", "Genuine"] + PROTO
    models = [("MC_IR.tla", "IR_quick.cfg" if tier == "quick" else "IR_design.cfg", 8), ("MC_IRPub.tla", "IRPub_quick.cfg" if tier == "quick" else "IRPub_full.cfg", 8)]
    return ir_flow("C05", tier, seed, descs, own, models, COMMON_ASSUME, t0, neg_models=[("MC_IRPub.tla", "IRPub_neg.cfg", 4)],
                   extra_cov=dict(generated_public_histories=dict(module="MC_IRPubGen", maxlen=ginfo["maxlen"], histories=len(seqs), states=ginfo["states"])))


# rules of the public-level contract (spec/IRPublic.tla), judged by TraceIR from the harness lines alone
PUB = ["PubInit", "PubCompute", "PubI:*"]
# (PUB: whatever is handed back as converged after ANY call must be genuine - after an init() nothing is handed back at all)
HERM_NUM = ["Genuine", "UnitNorm", "Orthonormal", "ConvGenuine", "ConvCount", "I:ReturnedAreFresh", "AllFinite"] + PUB
GEN_NUM = ["Genuine", "UnitNorm", "InSpectrumOfA", "Distinct", "ConvGenuine", "ConvCount", "I:ReturnedAreFresh", "AllFinite"] + PUB
KRY = ["FacShape", "FacFinite", "KrylovAV", "KrylovVV", "KrylovVf", "KrylovBeta", "KrylovRealH", "Hessenberg", "TridiagonalSymmetric", "KAdvertised",
       "ExpandBasisFailed", "ExpandSeed", "G:CompressH", "G:CompressV", "G:FacBegin", "G:FacStep", "G:FacDone", "G:FacInit", "G:ExpandBasis", "I:KInRange"]


# rules of spec/TraceKrylov.tla (direct drive of the factorization classes along TLC-generated call sequences)
KRY_SEQ = ["G:Init", "G:InitZero", "G:Extend", "G:Noop", "G:Throw", "G:Shift", "DimAdvertised", "InitAccepted", "InitCostsTwoApplications", "InitEvent", "Shapes",
           "ZeroStartRejected", "RejectedCallChangesNothing", "ExtendAccepted", "OneStepPerColumn", "ClaimedOpsAreTrueOps", "OneApplicationPerColumnPlusRestarts",
           "ExpandBasisSucceeds", "EmptyRangeReturnsAtOnce", "FromBeyondDimRejected", "CompressHEvent", "CompressVEvent", "CompressTouchesNoOperator",
           "NoForeignEvents", "KI:*", "MeasuredInFactPhase", "MeasuredInShiftPhase", "Shift*", "EveryCallLogged", "KAbort", "KUnknownRow", "UnknownCall"]


IR_NEG = [("MC_IR.tla", "IR_neg_refresh.cfg", 4), ("MC_IR.tla", "IR_neg_resume.cfg", 4)]


def types_for(tier):
    return ("d", "d", "f", "l") if tier == "thorough" else ("d", "d", "d", "f", "l")


# fixed descriptors on which the unchanged tree is known to violate C02 / C07 (near-breakdown handling with absolute thresholds)
FIXED_BREAKDOWN = {
    "C02": ["cls=gen;ty=d;n=11;nev=1;ncv=8;seed=764675;hist=N,V1,C0;sv1=rnd;args0=1:20:-10:5;meas=1;ref=0;lgs=0;fam=lowrank;rank=1",
            "cls=genrs;ty=f;n=34;nev=5;ncv=18;seed=175185;hist=N,I,C0,C1;args0=4:80:-3:1;args1=1:4:-4:6;sv1=rnd2;sv2=rnd2;meas=1;ref=1;fam=presc;ncp=12;sigma=-1.63",
            "cls=gencs;ty=d;n=67;nev=5;ncv=11;seed=471933;hist=N,I,C0;args0=1:10:-10:2;args1=4:4:-10:0;sv1=rnd2;sv2=rnd;meas=1;ref=1;fam=rand;sigma=0.37;sigmai=1.9",
            # met by the thorough tier (seed 1) after the profiles were widened in session 3; same two classes
            "cls=gencs;ty=d;n=86;nev=4;ncv=6;seed=706106;hist=N,V2,C1,N,I,C0,I,C0;args0=0:10:-6:6;args1=0:0:-10:0;sv1=rnd2;sv2=blk;meas=1;ref=1;fam=blockdiag;blk=3;sigma=0.37;sigmai=0.8",
            "cls=gen;ty=f;n=30;nev=6;ncv=20;seed=472753;hist=N,I,C0;args0=6:80:-4:4;args1=0:1:-4:0;sv1=rnd2;sv2=rnd;meas=1;ref=1;fam=presc;ncp=15",
            "cls=gencs;ty=l;n=78;nev=2;ncv=6;seed=737063;hist=N,I,C0;args0=0:80:-6:4;args1=0:4:-10:0;sv1=rnd;sv2=rnd;meas=1;ref=1;fam=presc;ncp=39;sigma=2.45;sigmai=0.8",
            "cls=gen;ty=l;n=15;nev=1;ncv=7;seed=608980;hist=N,V1,C0;sv1=ones;args0=0:20:-14:0;meas=1;ref=0;lgs=0;fam=rowsum;rs=10",
            "cls=gen;ty=d;n=11;nev=2;ncv=9;seed=331650;hist=N,V1,C0;sv1=ones;args0=0:20:-6:5;meas=1;ref=0;lgs=0;fam=rowsum;rs=10"],
    "C07": ["cls=gen;ty=l;n=20;nev=1;ncv=8;seed=733566;hist=N,V1,C0;sv1=rnd;args0=0:20:-6:1;meas=2;ref=0;lgs=0;fam=lowrank;rank=1",
            "cls=sym;ty=f;n=15;nev=1;ncv=9;seed=719364;hist=N,V1,C0;sv1=e1;args0=3:20:-3:7;meas=2;ref=0;lgs=-20;fam=diag;spec=lin",
            "cls=gencs;ty=d;n=69;nev=3;ncv=8;seed=588826;hist=N,I,C0;args0=6:80:-12:6;args1=0:80:-3:0;sv1=rnd2;sv2=rnd;meas=2;ref=0;fam=presc;ncp=34;sigma=2.45;sigmai=0.3",
            "cls=gen;ty=d;n=20;nev=3;ncv=15;seed=667920;hist=N,I,C0,V1,C1,I,C0;args0=4:80:-6:5;args1=1:1:-10:0;sv1=rnd;sv2=rnd;meas=2;ref=0;fam=presc;ncp=10"],
}


def check_C01(tier, seed, t0):
    rng = random.Random(2000 + seed)
    descs = P.herm_basic(rng, n_of(tier, 120, 2500), types=types_for(tier), meas=1, nmax=n_of(tier, 40, 120))
    descs += P.breakdown_descs(rng, n_of(tier, 72, 300), types=types_for(tier), gen=False, meas=1)
    descs += P.near_descs(rng, classes=("sym", "herm"), types=("d", "l") if tier == "thorough" else ("d",), meas=1)
    models = [("MC_IR.tla", "IR_quick.cfg" if tier == "quick" else "IR_design.cfg", 8)]
    return ir_flow("C01", tier, seed, descs, HERM_NUM, models, COMMON_ASSUME, t0, neg_models=IR_NEG)


def check_C02(tier, seed, t0):
    rng = random.Random(3000 + seed)
    descs = P.gen_basic(rng, n_of(tier, 120, 2500), types=types_for(tier), meas=1, nmax=n_of(tier, 36, 100))
    descs += P.breakdown_descs(rng, n_of(tier, 72, 300), types=types_for(tier), gen=True, meas=1)
    descs += P.near_descs(rng, classes=("gen",), types=("d", "l") if tier == "thorough" else ("d",), meas=1)
    descs += FIXED_BREAKDOWN["C02"]
    models = [("MC_IR.tla", "IR_quick.cfg" if tier == "quick" else "IR_design.cfg", 8)]
    return ir_flow("C02", tier, seed, descs, GEN_NUM, models, COMMON_ASSUME, t0, neg_models=IR_NEG)


def check_C03(tier, seed, t0):
    rng = random.Random(3500 + seed)
    descs = P.geig_basic(rng, n_of(tier, 140, 2500), types=types_for(tier), nmax=n_of(tier, 28, 80))
    # start vector in the null space of the operator: breakdown continued in the B-inner product
    descs += ["cls=greginv;ty=d;fam=nullA;n=%d;nev=2;ncv=7;seed=%d;hist=N,V1,C0,V1,C0;sv1=e1;args0=%d:%d:-10:3;uplo=ll;store=ss;meas=1" % (12 + i, 300 * seed + i, [0, 3, 7][i % 3], [30, 2, 30][i % 3])
              for i in range(n_of(tier, 6, 24))]
    # the same with an ill-conditioned, scaled B: the correction loop of expand_basis runs in the B-inner product
    descs += ["cls=%s;ty=d;fam=nullA;n=%d;nev=2;ncv=7;seed=%d;hist=N,V1,C0;sv1=e1;args0=%d:30:-8:3;uplo=ll;store=dd;sigma=0.37;meas=1;lgcB=%d;bsc=%d" % (["gsi", "gcay"][i % 2], 12 + i, 700 * seed + i, [0, 3, 7][i % 3], [8, 14][(i // 2) % 2], [0, 3][(i // 4) % 2])
              for i in range(n_of(tier, 8, 24))]
    models = [("MC_IR.tla", "IR_quick.cfg" if tier == "quick" else "IR_design.cfg", 8)]
    return ir_flow("C03", tier, seed, descs, HERM_NUM, models, COMMON_ASSUME, t0, neg_models=IR_NEG)


# fixed descriptors (independent of VERIF_SEED) on which the unchanged tree is known to violate C04: see known_findings.json
FIXED_C04 = [
    "cls=sym;ty=d;n=16;nev=4;ncv=15;seed=624719;hist=N,I,C0;c04=1;meas=0;mconv=0;fam=presc;spec=evenint;args0=4:500:-10:7",
    "cls=sym;ty=d;n=19;nev=2;ncv=6;seed=448915;hist=N,I,C0;c04=1;meas=0;mconv=0;fam=presc;spec=evenint;args0=4:500:-10:3",
    "cls=genrs;ty=d;n=15;nev=2;ncv=5;seed=202022;hist=N,I,C0;c04=1;meas=0;mconv=0;fam=presc;spec=cint;ncp=3;sigma=-3.5;args0=2:500:-10:4",
]


def check_C04(tier, seed, t0):
    rng = random.Random(4400 + seed)
    descs = P.selection_descs(rng, n_of(tier, 165, 2200), types=("d",) if tier == "quick" else ("d", "d", "l", "f"))
    descs += FIXED_C04
    own = ["ReturnedIsWanted", "ReturnedInPrescribedSpectrum", "ReturnedDistinct"]
    models = [("MC_Transform.tla", "Transform.cfg", 4)]
    return ir_flow("C04", tier, seed, descs, own, models, COMMON_ASSUME + [
        "prescribed (Gaussian-)integer spectra realised by orthogonal similarity / L D L' pencils in long double and cast; the returned values are matched to the prescribed ones by nearest distance (measured, bounded by the spec)",
        "cases in which the rule does not determine a unique wanted set (ties at the boundary) and runs that did not report Successful are counted, not judged",
        "Davidson, partial SVD and LOBPCG selection clauses are decided in the C15/C16/C17 checks"], t0)


def check_C07(tier, seed, t0):
    rng = random.Random(4000 + seed)
    descs = P.herm_basic(rng, n_of(tier, 60, 800), types=types_for(tier), meas=2, nmax=n_of(tier, 36, 90))
    descs += P.gen_basic(rng, n_of(tier, 60, 800), types=types_for(tier), meas=2, nmax=n_of(tier, 32, 80), ref=0)
    descs += P.breakdown_descs(rng, n_of(tier, 120, 400), types=types_for(tier))
    descs += P.near_descs(rng, types=("d", "l") if tier == "thorough" else ("d",))
    descs += P.geig_basic(rng, n_of(tier, 30, 300), types=("d",), meas=2, lgcs=(2, 6))
    descs += FIXED_BREAKDOWN["C07"]
    # start vector in the null space of the operator, B-inner product (fallback path of Arnoldi::init)
    descs += ["cls=greginv;ty=d;fam=nullA;n=%d;nev=2;ncv=7;seed=%d;hist=N,V1,C0,V1,C0;sv1=e1;args0=%d:%d:-10:3;uplo=ll;store=ss;meas=2" % (12 + i, 100 * seed + i, [0, 3, 7][i % 3], [30, 2, 0][i % 3])
              for i in range(n_of(tier, 4, 16))]
    descs += ["cls=gchol;ty=d;fam=nullA;n=%d;nev=2;ncv=7;seed=%d;hist=N,V1,C0;sv1=e1;args0=0:30:-10:3;uplo=ll;store=dd;meas=2" % (12 + i, 200 * seed + i) for i in range(2)]
    descs += ["cls=%s;ty=d;fam=nullA;n=%d;nev=2;ncv=7;seed=%d;hist=N,V1,C0;sv1=e1;args0=%d:30:-8:3;uplo=ll;store=dd;sigma=0.37;meas=2;lgcB=%d;bsc=%d" % (["gsi", "gcay"][i % 2], 12 + i, 800 * seed + i, [0, 3, 7][i % 3], [8, 14][(i // 2) % 2], [0, 3][(i // 4) % 2])
              for i in range(n_of(tier, 8, 16))]
    models = [("MC_IR.tla", "IR_quick.cfg" if tier == "quick" else "IR_design.cfg", 8), ("MC_Krylov.tla", "Kry_arn.cfg", 4), ("MC_Krylov.tla", "Kry_lan.cfg", 4)]
    # specification -> code -> specification: TLC enumerates the call sequences of the factorization object (spec/Krylov.tla), the harness
    # executes each on the real Arnoldi / Lanczos classes, TraceKrylov validates what was recorded against the same operators
    kdescs, kinfo = P.krylov_descs(random.Random(4100 + seed), tier, types=types_for(tier))
    for ki in kinfo:
        log("[gen] Krylov behaviours kind=%d m=%d len=%d: %d states, %d behaviours, %d executed" % (ki["kind"], ki["m"], ki["maxlen"], ki["states"], ki["behaviours"], ki["executed"]))
    stage = dict(descs=kdescs, trace_module="TraceKrylov.tla", trace_cfg="TraceKrylov.cfg", driver_of=lambda d: "drv_krylov")
    return ir_flow("C07", tier, seed, descs, KRY + KRY_SEQ, models, COMMON_ASSUME + [
        "the call sequences executed on the factorization classes are ALL behaviours of spec/Krylov.tla up to the bounds logged under generated_behaviours (sampled where 'executed' < 'behaviours'); each is run on one matrix"],
        t0, extra_stages=[stage], neg_models=[("MC_Krylov.tla", "Kry_neg.cfg", 2)], extra_cov=dict(generated_behaviours=kinfo),
        # unbounded: the design invariants of the factorization object are inductive for every m and any number of calls (Apalache); TLC checks in
        # Kry_arn / Kry_lan that every step of Krylov.tla is a step of the transcription Apalache works on (PROPERTY StepsAreApaSteps)
        proofs=[("KrylovApa.tla", "IndInv", True), ("KrylovApa.tla", "IndInv", True, dict(init="IndInit", length=1)),
                ("KrylovApa.tla", "TooStrong", False, dict(init="TooStrongInit", length=1))])


C13_RULES = ["PubCompute", "PubInit", "I:WorkBound", "I:KInRange", "I:ShiftInRange", "I:RestartsBounded", "G:ShiftBegin", "G:Shift", "G:NevAdj", "G:CompressH", "G:CompressV",
             "G:RestartBegin", "G:FacBegin", "G:FacStep", "AllFinite", "OpArgsValid", "Abort", "UndocumentedException", "StatusDocumented",
             "Hang", "FacFinite", "EndedMidCall", "HeapOverrun"]


def check_C13(tier, seed, t0):
    rng = random.Random(5000 + seed)
    descs = P.degenerate(rng, n_of(tier, 220, 4000), types=types_for(tier))
    descs += P.herm_basic(rng, n_of(tier, 30, 500), meas=0) + P.gen_basic(rng, n_of(tier, 30, 500), meas=0, ref=0)
    descs += P.tie_descs(rng, n_of(tier, 60, 600), types=types_for(tier))
    models = [("MC_IR.tla", "IR_quick.cfg" if tier == "quick" else "IR_design.cfg", 8), ("MC_IR.tla", "IR_live.cfg", 4),
              ("MC_NevAdj.tla", "NevAdj_quick.cfg" if tier == "quick" else "NevAdj_full.cfg", 8)]
    neg = [("MC_NevAdj.tla", "NevAdj_neg.cfg", 4)]
    table = dict(descs=["mode=nevadj;nfull=%d;nwell=%d" % ((4, 10) if tier == "quick" else (6, 14))],
                 trace_module="TraceFn.tla", trace_cfg="TraceFn.cfg", driver_of=fn_driver)
    stages = [table]
    own = C13_RULES + ["NevAdjRange", "ShiftLoopSafeFromTable", "NevAdjNoIndexAssert"]
    if tier == "thorough":
        # auxiliary observation: the traced harness under AddressSanitizer + UBSan (a report ends the process: exit code 66 or an Abort line)
        san = [d for d in P.degenerate(random.Random(5100 + seed), 400, types=("d",)) + P.breakdown_descs(random.Random(5200 + seed), 60, types=("d",), meas=0)
               if P.driver_of(d) in ("drv_ir_sym_d", "drv_ir_gen_d")]
        stages.append(dict(descs=san, trace_module="TraceIR.tla", trace_cfg="TraceIR.cfg", driver_of=lambda d: P.driver_of(d) + "_asan",
                           env={"ASAN_OPTIONS": "exitcode=66:detect_leaks=0", "UBSAN_OPTIONS": "print_stacktrace=1"}, sanitizer="SanitizerReport"))
        own = own + ["SanitizerReport"]
    # unbounded obligations: nev_adjusted ranges; the work bound / dimension / shift ranges of IRSolver.tla inductive for every (nev, ncv, maxit)
    # and any number of calls (the G_X/U_X operators themselves, EXTENDS IRSolver); MC_IRApa ties the relation Apalache works on to IRSolver!Next
    proofs = [("apa/NevAdjustApa.tla", "RangeInv", True), ("apa/NevAdjustApa.tla", "TooStrong", False),
              ("IRSolverApa.tla", "IndInv", True, dict(cinit="ConstInit", init="ApaInit", next="ApaNext", length=0)),
              ("IRSolverApa.tla", "IndInv", True, dict(cinit="ConstInit", init="IndInit", next="ApaNext", length=1)),
              ("IRSolverApa.tla", "TooStrong", False, dict(cinit="ConstInit", init="TooStrongInit", next="ApaNext", length=1))]
    models = models + [("MC_IRApa.tla", "IR_refine.cfg", 8)]
    return ir_flow("C13", tier, seed, descs, own, models, COMMON_ASSUME + [
        "Apalache 0.58 discharges the range of both nev_adjusted variants over unbounded integers (length 0, Init => Inv); the formulas are tied to the code by the extracted table (nevadj_mismatch = 0)",
        "Apalache proves the work bound trueOps - ops0 <= 2 ncv (maxit + 1), KInRange, ShiftInRange, OpsCounted, RestartsBounded inductive over IRSolver's own operators for all (nev, ncv, maxit) and any number of calls (IRSolverApa.tla); TLC checks on IR_refine that every step of IRSolver!Next is a step of the relation used there"], t0,
                   hang_is_violation=True, extra_stages=stages, neg_models=neg, proofs=proofs)


def check_C12(tier, seed, t0):
    descs = ["mode=args;part=ctor;nmax=12", "mode=args;part=svd", "mode=args;part=shape", "mode=args;part=sigma", "mode=args;part=rule"]
    own = ["AcceptsValid*", "RejectsInvalid*", "NoLeak*", "UsableAfterRejection", "UnknownRow"]
    return ir_flow("C12", tier, seed, descs, own, [], COMMON_ASSUME[:1] + [
        "live-heap deltas are counted by the harness' malloc/operator new interposer (alloc_guard.h)",
        "exhaustive over the stated finite domain: n in 1..12, (nev, ncv) in [-2, n+3]^2 for 12 solver classes, SVD shapes up to 6x6, wrapper shapes up to 4x4, nine rules x two roles x seven classes"], t0,
        trace_module="TraceArgs.tla", trace_cfg="TraceArgs.cfg", driver_of=lambda d: "drv_args", extra_cov=dict(exhaustive=True))


def kernel_descs(mode, tier, seed):
    out = []
    for ty in ("d", "f", "l"):
        for i in range(n_of(tier, 2, 8)):
            out.append("mode=%s;kty=%s;count=%d;nmax=%d;seed=%d" % (mode, ty, n_of(tier, 102, 340), 64 if mode == "eig" else 48, seed * 100 + i))
    return out


def check_C08(tier, seed, t0):
    own = ["ResultBeforeComputeIsLogicError", "QrFinite", "QOrthogonal", "QRequalsShiftedH", "QtHQisSimilarity", "ApplyMultipliesByQ", "RUpperTriangular",
           "QtHQHessenberg", "QtHQTridiagonalSymmetric", "FirstColumnParallel", "ExactOnTrivialRotations", "UnknownRow", "Abort"]
    return ir_flow("C08", tier, seed, kernel_descs("qr", tier, seed), own, [], COMMON_ASSUME[:1] + [
        "numerical accuracy of the kernels is MEASURED on generated families (random, integer, graded, deflated, tiny/huge, Taylor-branch ratios, "
        "Jordan, companion, zero, repeated; shifts 0 / random / exact eigenvalue; 3 scalar types) and judged by the spec's formulas: sampling, not proof",
        "decided exactly: logic_error protocol, exact zero structure of R and Q'HQ, bit-exact identities on generalized-permutation inputs"], t0,
        trace_module="TraceKernel.tla", trace_cfg="TraceKernel.cfg", driver_of=lambda d: "drv_kernels")


def check_C09(tier, seed, t0):
    own = ["EigFinite", "BackwardStable", "OrthogonalOrUnitNorm", "QuasiTriangular", "BlocksStandardised", "ExactConjugatePairing",
           "FailureIsRuntimeError", "DecompositionFailed", "UnknownRow", "Abort"]
    fixed = "mode=eig;kty=d;count=102;nmax=64;seed=300"   # recorded finding (known_findings.json), in the corpus for every seed
    descs = kernel_descs("eig", tier, seed)
    if fixed not in descs:
        descs.append(fixed)
    return ir_flow("C09", tier, seed, descs, own, [], COMMON_ASSUME[:1] + [
        "backward stability is MEASURED on generated families (sizes 2..64, 11 entry patterns incl. zero matrix, defective and repeated eigenvalues, "
        "scalings 1e-100/1e100, 3 scalar types) and judged by the spec: sampling, not proof",
        "decided exactly from the returned bits: zero imaginary parts, adjacent exact conjugates with the positive part first, quasi-triangular T, "
        "standardised 2x2 blocks; the same conventions are the contract IRSolver's general variant relies on (checked at every Retrieve of C02 runs through the shift-loop guards)",
        "the iteration-limit exception path is monitored (a failure must be a runtime_error) but no generated input reaches it"], t0,
        trace_module="TraceKernel.tla", trace_cfg="TraceKernel.cfg", driver_of=lambda d: "drv_kernels")


def check_C11(tier, seed, t0):
    descs = ["mode=matop;part=%s;reps=%d;nmax=%d;seed=%d" % (pt, n_of(tier, 3, 24), n_of(tier, 5, 12), seed) for pt in ("prod", "solve", "ssi")]
    own = ["ProductExact", "RowsCols", "SolveFinite", "SolveAccurate", "ReadsOnlyItsTriangle", "ConfigSpaceComplete", "ShiftInvert64Combinations", "UnknownRow", "Abort"]
    return ir_flow("C11", tier, seed, descs, own, [], COMMON_ASSUME[:1] + [
        "product wrappers: exact (integer matrices and vectors; the specification computes the product; unused triangle poisoned)",
        "solve wrappers and composite operators: residual of the defining equation measured in long double and judged with the condition number of the factorized matrix; "
        "poison independence by digest equality of two runs that differ only in the unused triangle",
        "the instantiated configuration set is checked against MatOp.tla's enumeration (scalar types x storage index types are sampled for the sparse wrappers: double with int/long, float and long double with int)"], t0,
        trace_module="TraceKernel.tla", trace_cfg="TraceKernel.cfg", driver_of=lambda d: "drv_matop_" + [x.split("=")[1] for x in d.split(";") if x.startswith("part=")][0], extra_cov=dict(exhaustive=True))


FIXED_AUX = {"C17": ["mode=lobpcg;count=1;seed=5;kfix=1", "mode=lobpcg;seed=51;case=24"], "C15": ["mode=davidson;count=1;seed=3;dec=1"],
             "C16": ["mode=svdmult;seed=1;mult=5;ncv=12"]}


def aux_flow(prop, tier, seed, t0, mode, count, own, models, neg, notes, extra_stages=None, extra_cov=None, proofs=None):
    descs = ["mode=%s;count=%d;seed=%d" % (mode, count, seed * 10 + i) for i in range(n_of(tier, 4, 16))] + FIXED_AUX.get(prop, [])
    return ir_flow(prop, tier, seed, descs, own, models, COMMON_ASSUME[:1] + notes, t0, trace_module="TraceAux.tla", trace_cfg="TraceAux.cfg",
                   driver_of=lambda d: "drv_aux", neg_models=neg, extra_stages=extra_stages, extra_cov=extra_cov, proofs=proofs)


def check_C15(tier, seed, t0):
    own = ["NeverNaN", "StatusDocumented", "SuccessfulReturnsNev", "SuccessfulMeansTrueResidual", "UnitNorm", "Orthonormal", "OrderedByRule", "ReturnedIsWanted",
           "DavidsonThrew", "UnknownRow", "Jd*"]
    return aux_flow("C15", tier, seed, t0, "davidson", n_of(tier, 24, 120), own, [("Davidson.tla", "Davidson.cfg", 4)], [("Davidson.tla", "Davidson_neg_status.cfg", 2)], [
        "design model: search-space bookkeeping for all (n <= 12, nev, initial, maximal) inside the documented domain (initial >= nev, initial + correction <= n)",
        "runs: diagonally dominant and moderately coupled symmetric matrices, dense and sparse wrappers, four rules, restarts (small maximal space), user guesses; "
        "true residuals recomputed from the harness' own copy of A in long double",
        "matrices with an exactly decoupled coordinate (0/0 in the diagonal preconditioner) are a recorded finding class and not in the random profile"])


def check_C16(tier, seed, t0):
    own = ["SvdFinite", "SingularValuesNonNegative", "SingularValuesNonIncreasing", "CountsAgree", "ColsAreMinKNconv", "ColsIndependentOfCallOrder", "FactorShapes", "DescribesMostRecentCompute",
           "MatchesLargestSingularValues", "FactorsFinite", "FactorsOrthonormal", "FactorIdentities", "UnknownRow"]
    # specification -> code -> specification: every call sequence of MC_SVDSeq up to the bound, executed on the real class
    import krygen
    seqs, info = krygen.svd_sequences(n_of(tier, 4, 5))
    if not info.get("ok"):
        raise V.Infra("MC_SVDSeq did not pass: %s" % info.get("stdout_tail", ""))
    log("[gen] PartialSVD behaviours len=%d: %d states, %d call sequences" % (info["maxlen"], info["states"], len(seqs)))
    sdescs = ["mode=svdseq;seed=%d;shape=%d;form=%d;ops=%s" % (seed * 100000 + i, i % 3, (i // 3) % 3, x) for i, x in enumerate(seqs)]
    stage = dict(descs=sdescs, trace_module="TraceAux.tla", trace_cfg="TraceAux.cfg", driver_of=lambda d: "drv_aux")
    own += ["Seq*", "G:SeqRead"]
    return aux_flow("C16", tier, seed, t0, "svd", n_of(tier, 24, 120), own, [("PartialSVD.tla", "SVD.cfg", 4), ("MC_SVDSeq.tla", "SVDSeq.cfg", 4)],
                    [("PartialSVD.tla", "SVD_neg.cfg", 2), ("MC_SVDSeq.tla", "SVDSeq_neg.cfg", 2)], [
        "design model: all sequences of compute / matrix_U / matrix_V up to 6 calls: reads always describe the most recent compute (negative control: cache never invalidated)",
        "generated behaviours: ALL call sequences (compute with 3 argument sets incl. one that stops partly converged, singular_values, matrix_U/V(k) for k below / at / above ncomp) "
        "of the length logged under generated_behaviours, each executed on one tall/wide/square dense, row-major or sparse matrix and compared call for call with a reference object",
        "runs: tall/wide/square, dense col-/row-major and sparse, prescribed singular values incl. exactly rank-deficient matrices, every solver used for two compute() calls "
        "with different maxit/tol and compared bit for bit with a fresh solver",
        "unbounded (Apalache): with the invalidation in compute() the read invariants are inductive for any number of calls, any nconv and any k; without it they are refuted within 4 calls"],
        extra_stages=[stage], extra_cov=dict(generated_behaviours=[dict(info, sequences=len(seqs))]),
        proofs=[("PartialSVDApa.tla", "IndInv", True), ("PartialSVDApa.tla", "IndInv", True, dict(init="IndInit", length=1)),
                ("PartialSVDApa.tla", "ReadInv", False, dict(init="InitNoInval", length=4))])


def check_C17(tier, seed, t0):
    own = ["LobFinite", "ReturnsKEigenvalues", "EigenvectorsShapeNbyK", "ResidualsShapeNbyK", "EigenvaluesAscending", "SmallestEigenvalues", "BOrthonormal",
           "ResidualsAreAXminusBXL", "ResidualNormsBelowTol", "LobpcgThrew", "UnknownRow", "LobIterConsecutive", "LobActiveBlockInRange",
           "LobRayleighRitzOrder", "LobCoefficientShape"]
    return aux_flow("C17", tier, seed, t0, "lobpcg", n_of(tier, 30, 150), own, [("LOBPCG.tla", "LOBPCG.cfg", 4)], [("LOBPCG.tla", "LOBPCG_neg.cfg", 2), ("LOBPCG.tla", "LOBPCG_neg_info.cfg", 2), ("LOBPCG.tla", "LOBPCG_neg_reorth.cfg", 2)], [
        "design model: shape algebra for all n <= 14, 5k < n, block-size sequences (negative control: eigenvectors() returning the Ritz coefficient matrix)",
        "runs: sparse symmetric (also indefinite) A, tridiagonal SPD B, with/without B and a diagonal preconditioner, k in 2..3; clauses are judged only when info() reports success",
        "block size k = 1 is a recorded finding (the inner generalized solver rejects ncv <= nev)"])


def check_C20(tier, seed, t0):
    descs = ["mode=mt;rounds=%d;seed=%d" % (n_of(tier, 12, 24), seed * 10 + i) for i in range(n_of(tier, 2, 8))]
    own = ["ConcurrentTraceIdentical", "ConcurrentResultsIdentical", "FreshProcessIdentical", "IsolatedRunCompleted", "Abort", "UnknownRow"]
    models = [("Threads.tla", "Threads_own.cfg", 2), ("Threads.tla", "Threads_sharedprod.cfg", 2)]
    neg = [("Threads.tla", "Threads_sharedsolve.cfg", 2)]
    extra = []
    if tier == "thorough":
        # auxiliary observation: the same driver under ThreadSanitizer (a report ends the process with exit code 66)
        extra = [dict(descs=["mode=mt;rounds=12;seed=%d" % (seed * 10 + 7)], trace_module="TraceAux.tla", trace_cfg="TraceAux.cfg", driver_of=lambda d: "drv_mt_tsan",
                      env={"TSAN_OPTIONS": "exitcode=66"}, sanitizer="ThreadSanitizerReport")]
        own = own + ["ThreadSanitizerReport"]
    return ir_flow("C20", tier, seed, descs, own, models, COMMON_ASSUME[:1] + [
        "design model: all interleavings of 3 instances over the location map of the code's mutable state; own operators and one shared product wrapper are conflict free, "
        "a shared shift-solve wrapper is a conflict (negative control)",
        "runs: 2/4/8/16 threads, Lanczos/Arnoldi and Davidson solvers, private operators or one shared (previously unused) Dense/Sparse Sym/Gen product wrapper, generic and breakdown-heavy (low rank) jobs, "
        "randomised start; every job's hook-event stream digest and result digest must equal those of the same job run alone",
        "formal data-race freedom (a race that writes equal values) is not decided by value traces; the thorough tier additionally runs the driver under ThreadSanitizer"], t0,
        trace_module="TraceAux.tla", trace_cfg="TraceAux.cfg", driver_of=lambda d: "drv_mt", neg_models=neg, extra_stages=extra)


def check_C10(tier, seed, t0):
    parts = 8
    descs = ["mode=exact;stride4=%d;part=%d;parts=%d" % (41 if tier == "quick" else 3, i, parts) for i in range(parts)]
    descs += ["mode=measured;count=%d;ccount=%d;nmax=80;seed=%d" % (n_of(tier, 160, 1600), n_of(tier, 40, 400), seed * 10 + i) for i in range(n_of(tier, 2, 8))]
    descs += ["mode=protocol"]
    own = ["VariantsSameStatus", "VariantsBitIdentical", "SolutionFinite", "StatusSuccessOrNumericalIssue", "NonsingularReportsSuccess", "ResidualSmall",
           "SingularReportsNumericalIssue", "SolveBeforeComputeIsLogicError", "NonSquareRejected", "WrapperThrowsIffNotSuccessful",
           "RecomputeIndependentOfHistory", "UnknownRow", "Abort"]
    return ir_flow("C10", tier, seed, descs, own, [], COMMON_ASSUME[:1] + [
        "exact part: every symmetric matrix of order <= 3 over {-1,0,1,2} (order 4 over {-1,0,1}, strided) with shifts 0 and 1; nonsingularity decided by TLC with the exact integer determinant",
        "measured part: residuals in long double, judged only when the long double condition number of the shifted matrix is below 1/sqrt(eps)"], t0,
        trace_module="TraceKernel.tla", trace_cfg="TraceKernel.cfg", driver_of=lambda d: "drv_bkldlt")


def check_C18(tier, seed, t0):
    parts = 16
    if tier == "quick":
        base = "mode=sort;lenfull=5;lensmall=5;clenfull=4;clensmall=4;nlong=6;seed=%d" % seed
    else:
        base = "mode=sort;lenfull=6;lensmall=7;clenfull=5;clensmall=7;nlong=40;seed=%d" % seed
    descs = [base + ";part=%d;parts=%d" % (i, parts) for i in range(parts)]
    own = ["IsPermutation", "OrderedByKey", "BothEndsPrefix", "RejectsUndefinedRule", "AcceptsDefinedRule", "CompileTimeRejection", "UnknownRow"]
    models = [("MC_SR.tla", "SR.cfg", 4)]
    return ir_flow("C18", tier, seed, descs, own, models, COMMON_ASSUME[:1] + [
        "the table driver enumerates the stated alphabet domain completely (row counts are reported in coverage_counters)",
        "exhaustive over the stated finite domain (lengths 0..7 over the value alphabets), sampled for long vectors"], t0,
        trace_module="TraceFn.tla", trace_cfg="TraceFn.cfg", driver_of=fn_driver, extra_cov=dict(exhaustive=True))


def check_C19(tier, seed, t0):
    if tier == "quick":
        descs = ["mode=rng;steps=2147483646;cpbits=21;nsamp=3000;imax=4096;seed=%d" % seed]
    else:
        descs = ["mode=rng;steps=2147483646;cpbits=21;nsamp=200000;imax=1048576;seed=%d" % seed]
    own = ["ExactParkMillerStep", "WalkStepsExact", "NeverDegenerate", "WalkEndsAtPower", "CheckpointsOnCycle", "SeedNormalised",
           "DrawInRange", "DrawIsStateOverM", "ComplexDrawTwoStates", "SeedPure", "VecConsumesLenStates", "DefaultInitIsSeed0Stream", "UnknownRow"]
    models = [("MC_PM.tla", "PM_quick.cfg" if tier == "quick" else "PM_full.cfg", 8)]
    return ir_flow("C19", tier, seed, descs, own, models, COMMON_ASSUME[:1] + [
        "the cycle walk's per-step comparison uses a 64-bit reference product in C++; TLC certifies the checkpoints and the end point independently",
        "both tiers walk all 2^31 - 2 states of the single cycle (the spec proves the cycle structure); thorough adds 2*10^5 sampled transitions and all library seeds"], t0,
        trace_module="TraceFn.tla", trace_cfg="TraceFn.cfg", driver_of=fn_driver)


def check_C06(tier, seed, t0):
    rng = random.Random(6000 + seed)
    descs = P.history_descs(rng, n_of(tier, 130, 1500), types=types_for(tier))
    descs += P.history_descs_geig(rng, n_of(tier, 25, 300), types=("d",))
    descs += P.eigvec_start_descs(rng, n_of(tier, 12, 100), types=types_for(tier))
    if tier == "thorough":
        descs += P.history_descs(rng, 0, exhaustive_for=["sym", "gen", "gencs"], maxlen=3)
    # every public call history generated by TLC from IRPublic.tla before the observed pair: length <= 3 once (quick) / 4 times (thorough)
    import krygen
    seqs, ginfo = krygen.pub_sequences(n_of(tier, 3, 4))
    if not ginfo["ok"]:
        raise V.Infra("MC_IRPubGen failed: %s" % ginfo.get("stdout_tail", ""))
    descs += P.pub_history_descs(rng, seqs, per_seq=1, types=types_for(tier))
    own = ["SameKeySameDigest", "OperatorUnchanged", "I:InitMakesFresh", "PubInit", "PubI:InitMakesFresh", "UsableAfterFault"]
    models = [("MC_IR.tla", "IR_quick.cfg" if tier == "quick" else "IR_design.cfg", 8), ("MC_IRPub.tla", "IRPub_quick.cfg", 8)]
    return ir_flow("C06", tier, seed, descs, own, models, COMMON_ASSUME + [
        "digests are 63-bit hashes of the bit patterns of all public results and counters; equal digests are taken as bit-identical results"], t0,
        extra_cov=dict(generated_public_histories=dict(module="MC_IRPubGen", maxlen=ginfo["maxlen"], histories=len(seqs), states=ginfo["states"])))


def check_C14(tier, seed, t0):
    rng = random.Random(7000 + seed)
    if tier == "quick":
        descs = P.fault_descs(rng, 12, stride=3, rep=1) + P.fault_descs(rng, 6, stride=7, rep=3) + P.fault_descs_extra(rng, True)
    else:
        descs = P.fault_descs(rng, 60, types=types_for(tier), stride=1) + P.fault_descs(rng, 24, stride=1, pairs=True) + P.fault_descs(rng, 12, stride=5, rep=3) + P.fault_descs_extra(rng, False)
    own = ["SameException", "FaultCountMatches", "SameKeySameDigest", "G:OpThrows", "NoLeak", "I:InitMakesFresh", "OperatorUnchanged", "Abort",
           "UndocumentedException", "HeapOverrun", "EndedMidCall", "UsableAfterFault"] + PUB
    models = [("MC_IR.tla", "IR_quick.cfg" if tier == "quick" else "IR_design.cfg", 8)]
    return ir_flow("C14", tier, seed, descs, own, models, COMMON_ASSUME + [
        "fault positions: every application index of the fault-free run (thorough) or every 3rd/7th with a random offset (quick)"], t0,
        level="fault_enumeration" if False else "model_checking")


CHECKS = {"C20": check_C20, "C15": check_C15, "C16": check_C16, "C17": check_C17, "C11": check_C11, "C08": check_C08, "C09": check_C09, "C10": check_C10, "C12": check_C12, "C03": check_C03, "C04": check_C04, "C06": check_C06, "C14": check_C14, "C18": check_C18, "C19": check_C19, "C05": check_C05, "C01": check_C01, "C02": check_C02, "C07": check_C07, "C13": check_C13}


def main():
    ap = argparse.ArgumentParser()
    ap.add_argument("prop")
    ap.add_argument("--tier", default=os.environ.get("VERIF_TIER", "quick"))
    ap.add_argument("--replay", default=None)
    a = ap.parse_args()
    seed = int(os.environ.get("VERIF_SEED", "1"))
    t0 = time.time()
    if a.prop not in CHECKS:
        log("unknown property %s" % a.prop)
        return 2
    try:
        if a.replay:
            return replay(a.prop, a.replay, t0)
        return CHECKS[a.prop](a.tier, seed, t0)
    except V.Infra as e:
        log("INFRA-FAILURE property=%s: %s" % (a.prop, e))
        return 2
    except Exception:
        traceback.print_exc()
        return 2


def replay(prop, path, t0):
    """Re-execute the descriptor of a recorded violation with the driver and trace specification that reported it and print
    the hits; exit 1 if the recorded rule fires again."""
    with open(os.path.join(path, "hits.json")) as fh:
        rec = json.load(fh)
    d = rec["descriptor"]
    ex = rec.get("extra") or {}
    wd = V.workdir(prop + "_replay")
    dres, tres = ir_execute(prop, [d], wd, nproc=1, trace_module=ex.get("trace_module", "TraceIR.tla"), trace_cfg=ex.get("trace_cfg", "TraceIR.cfg"),
                            driver_of=lambda _d: rec["driver"], env=ex.get("env"))
    rules = set(h["r"] for h in rec.get("hits", []))
    again = False
    for t in tres:
        log("hits: " + json.dumps(t.get("hits", [])))
        again = again or any(h["r"] in rules for h in t.get("hits", []))
    for r in dres:
        if r["timeout"] or r["rc"] == 66:
            again = True
    log("replay of %s: recorded rule(s) %s %s" % (d, sorted(rules), "fired again" if again else "did not fire"))
    return 1 if again else 0


if __name__ == "__main__":
    sys.exit(main())
