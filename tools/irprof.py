#!/usr/bin/env python3
"""Descriptor profiles for the implicitly-restarted solver drivers (drv_ir_*).

A descriptor is a 'k=v;k=v' string (see harness/vh.h, harness/ir_run.h):
  cls   sym | symsh | herm | gen | genrs | gencs | gchol | greginv | gsi | gbuck | gcay
  ty    f | d | l
  fam   input family (harness/gen.h), n, nev, ncv, seed, further family parameters
  argsJ = sel:maxit:tol:sort   (tol: decimal exponent, or eK = K*eps)
  svJ   = start vector kind for init(v_J)
  hist  = comma separated history: N (new object) I (init()) VJ (init(v_J)) Z (init(0)) CJ (compute(argsJ))
          FK (arm an operator fault at the K-th application from now) P (probe the operator)
"""
import random

HERM_SEL = [0, 3, 4, 7, 8]
HERM_SORT = [0, 3, 4, 7]
GEN_RULES = [0, 1, 2, 4, 5, 6]

DRIVER_OF = {"sym": "sym", "symsh": "sym", "herm": "sym",
             "gen": "gen", "genrs": "gen", "gencs": "gen",
             "gchol": "geig", "greginv": "geig", "gsi": "geig", "gbuck": "geig", "gcay": "geig"}


def desc(**kw):
    return ";".join("%s=%s" % (k, v) for k, v in kw.items())


def driver_of(d):
    kv = dict(x.split("=", 1) for x in d.split(";") if "=" in x)
    return "drv_ir_%s_%s" % (DRIVER_OF[kv["cls"]], kv.get("ty", "d"))


def pick_dims(rng, n, gen=False, extreme=False):
    lo = 1
    hi = n - 2 if gen else n - 1
    nev = rng.randint(lo, max(lo, min(hi, 6)))
    mind = nev + 2 if gen else nev + 1
    if extreme:
        ncv = rng.choice([mind, n, min(n, 2 * nev + 1)])
    else:
        ncv = rng.randint(min(n, 2 * nev + 1), min(n, max(2 * nev + 1, 3 * nev + 6)))
    ncv = max(mind, min(n, ncv))
    return nev, ncv


def tol_for(rng, ty):
    """Tolerances of the RANDOM profiles stay >= ~1e3 eps: at a few eps the residual vector reaches rounding level and
    the library's near-breakdown handling is a known finding (fixed descriptors in FIXED_* exercise that region)."""
    if ty == "f":
        return rng.choice(["-3", "-4"])
    if ty == "l":
        return rng.choice(["-10", "-14", "-6"])
    return rng.choice(["-10", "-10", "-6", "-3", "-12"])


def herm_fam(rng, n):
    """A family inside the domain where the unchanged tree is expected to satisfy the numerical clauses."""
    r = rng.random()
    if r < 0.25:
        return dict(fam="rand")
    if r < 0.40:
        return dict(fam="presc", spec="lin")
    if r < 0.50:
        return dict(fam="presc", spec="clust", nc=rng.choice([2, 3, 4]), w=rng.choice([3, 5, 8]))
    if r < 0.58:
        return dict(fam="presc", spec="rep", mult=rng.choice([2, 3]))
    if r < 0.66:
        return dict(fam="presc", spec="int")
    if r < 0.72:
        return dict(fam="sprand", dens=rng.choice([10, 30]))
    if r < 0.80:
        return dict(fam="blockdiag", blk=rng.choice([2, 3, 4]))
    if r < 0.86:
        return dict(fam="lap")
    if r < 0.92:
        return dict(fam="graded", span=rng.choice([10, 20, 40]))
    if r < 0.94:
        return dict(fam="presc", spec="geo", span=rng.choice([10, 30]))
    if r < 0.97:
        return dict(fam="bipart", blk=max(2, n // 2 - rng.randint(0, 2)))
    if r < 0.99:
        return dict(fam="grid", w=rng.choice([3, 4, 5]))
    return dict(fam="diag", spec="lin")


def herm_basic(rng, count, types=("d",), classes=("sym", "symsh", "herm"), nmax=48, histories=None, maxits=None, meas=1):
    out = []
    for i in range(count):
        cls = rng.choice(classes)
        ty = rng.choice(types)
        n = rng.randint(6, nmax)
        f = herm_fam(rng, n)
        if cls in ("herm", "symsh") and f["fam"] in ("bipart", "grid"):
            cls = "sym"
        if cls == "herm" and f["fam"] not in ("rand", "presc", "blockdiag"):
            f = dict(fam="rand")
        nev, ncv = pick_dims(rng, n, extreme=rng.random() < 0.2)
        sel = rng.choice(HERM_SEL)
        if cls == "symsh":
            sel = rng.choice([0, 3, 7, 8])   # see gen_basic: no SmallestMagn (far from the shift) in shift-and-invert mode
        sort = rng.choice(HERM_SORT)
        mx = rng.choice(maxits or [80, 80, 80, 0, 1, 2, 3, 5, 10])
        tol = tol_for(rng, ty)
        a0 = "%d:%d:%s:%d" % (sel, mx, tol, sort)
        a1 = "%d:%d:%s:%d" % (rng.choice([0, 3, 7, 8] if cls == "symsh" else HERM_SEL), rng.choice([0, 1, 4, 80]), tol_for(rng, ty), rng.choice(HERM_SORT))
        hist = rng.choice(histories or ["N,I,C0", "N,I,C0", "N,V1,C0", "N,I,C0,V1,C1,I,C0", "N,I,C0,C1", "N,V2,C1,N,I,C0,I,C0"])
        sv1 = rng.choice(["rnd", "rnd2"])
        sv2 = rng.choice(["rnd", "blk" if f["fam"] == "blockdiag" else "rnd2"])
        if f["fam"] in ("bipart", "grid"):
            sv1 = "blk" if f["fam"] == "bipart" else "e1"
            hist = rng.choice(["N,V1,C0", "N,V1,C0,I,C0"])
        kw = dict(cls=cls, ty=ty, n=n, nev=nev, ncv=ncv, seed=rng.randint(1, 10 ** 6), hist=hist, args0=a0, args1=a1, sv1=sv1, sv2=sv2, meas=meas)
        kw.update(f)
        if cls == "symsh":
            # a shift that is not an eigenvalue: half-integers avoid the integer spectra; random matrices: irrational-ish
            kw["sigma"] = rng.choice(["0.37", "-1.63", "2.5", "0.05", "7.31"])
            if rng.random() < 0.4:
                kw["presig"] = rng.choice(["0.21", "-0.77", "1.3"])   # the operator object was used with another shift before
            if f["fam"] in ("lap",):
                kw["sigma"] = rng.choice(["-0.3", "4.7", "1.123"])
        out.append(desc(**kw))
    return out


def gen_fam(rng, n):
    r = rng.random()
    if r < 0.35:
        return dict(fam="rand")
    if r < 0.55:
        return dict(fam="presc", ncp=rng.randint(0, n // 2))
    if r < 0.70:
        return dict(fam="nonnormal", ncp=rng.randint(0, n // 3))
    if r < 0.80:
        return dict(fam="tri")
    if r < 0.88:
        return dict(fam="blockdiag", blk=rng.choice([3, 4, 5]))
    return dict(fam="presc", spec="int", ncp=rng.randint(1, max(1, n // 4)))


def gen_basic(rng, count, types=("d",), classes=("gen", "genrs", "gencs"), nmax=40, histories=None, maxits=None, meas=1, ref=1):
    out = []
    for i in range(count):
        cls = rng.choice(classes)
        ty = rng.choice(types)
        n = rng.randint(7, nmax)
        f = gen_fam(rng, n)
        if f["fam"] == "companion":
            n = min(n, 10)
        nev, ncv = pick_dims(rng, n, gen=True, extreme=rng.random() < 0.2)
        sel = rng.choice(GEN_RULES)
        rules1 = GEN_RULES
        if cls == "gen":
            # SmallestMagn on a plain general matrix: hundreds of restarts with a residual near rounding level (recorded finding)
            sel = rng.choice([0, 1, 2, 5, 6])
            rules1 = [0, 1, 2, 5, 6]
        if cls == "gencs":
            rules1 = [0]
        if cls == "genrs":
            rules1 = [0, 1, 2]
        if cls in ("genrs", "gencs"):
            # Smallest* of nu = eigenvalues FAR from the shift: the unwanted dominant directions converge to machine precision
            # long before the wanted ones, the residual vector degenerates to rounding noise and the near-breakdown finding
            # (known_findings.json) is hit; the suite itself lets those sections fail.  Fixed descriptors keep two such runs.
            sel = rng.choice([0, 1, 2]) if cls == "genrs" else 0   # the complex-shift solver: LargestMagn (closest to the shift), its documented use
        sort = rng.choice(GEN_RULES)
        mx = rng.choice(maxits or [80, 80, 80, 0, 1, 2, 3, 5, 10])
        tol = tol_for(rng, ty)
        a0 = "%d:%d:%s:%d" % (sel, mx, tol, sort)
        a1 = "%d:%d:%s:%d" % (rng.choice(rules1), rng.choice([0, 1, 4, 80]), tol_for(rng, ty), rng.choice(GEN_RULES))
        hist = rng.choice(histories or ["N,I,C0", "N,I,C0", "N,V1,C0", "N,I,C0,V1,C1,I,C0", "N,I,C0,C1", "N,V2,C1,N,I,C0,I,C0"])
        kw = dict(cls=cls, ty=ty, n=n, nev=nev, ncv=ncv, seed=rng.randint(1, 10 ** 6), hist=hist, args0=a0, args1=a1,
                  sv1=rng.choice(["rnd", "rnd2"]), sv2=rng.choice(["rnd", "blk" if f["fam"] == "blockdiag" else "rnd2"]), meas=meas, ref=ref)
        kw.update(f)
        if cls == "genrs":
            kw["sigma"] = rng.choice(["0.37", "-1.63", "2.45", "0.05", "5.31"])
            if rng.random() < 0.4:
                kw["presig"] = rng.choice(["0.21", "-0.77", "1.3"])
        if cls == "gencs":
            kw["sigma"] = rng.choice(["0.37", "-1.13", "2.45"])
            kw["sigmai"] = rng.choice(["0.8", "1.9", "0.3"])
            if rng.random() < 0.4:
                kw["presig"] = rng.choice(["0.21", "-0.77", "1.3"])
                kw["presigi"] = rng.choice(["0.6", "1.4"])
        out.append(desc(**kw))
    return out


def degenerate(rng, count, types=("d",), nmax=24):
    """C13 domain: zero, identity, nilpotent, rank-deficient, permutation, orthogonal, skew, exact key ties, norms 2^-26..2^26,
    extreme (nev, ncv), maxit from 0, every rule, nonzero start vectors."""
    out = []
    for i in range(count):
        herm = rng.random() < 0.45
        ty = rng.choice(types)
        n = rng.randint(4, nmax)
        lgs = rng.choice([0, 0, 0, -26, 26, -10, 13])
        if herm:
            cls = rng.choice(["sym", "sym", "herm", "symsh"])
            f = rng.choice([dict(fam="zero"), dict(fam="ident"), dict(fam="presc", spec="lowrank", rank=rng.randint(1, 3)),
                            dict(fam="presc", spec="rep", mult=rng.choice([2, 3, n])), dict(fam="diag", spec="rep", mult=2),
                            dict(fam="blockdiag", blk=rng.choice([1, 2, 3])), dict(fam="rand"), dict(fam="bipart", blk=max(1, n // 2)),
                            dict(fam="grid", w=3), dict(fam="diag", spec="lin")])
            if cls == "herm":
                f = rng.choice([dict(fam="zero"), dict(fam="rand"), dict(fam="blockdiag", blk=2), dict(fam="presc", spec="rep", mult=2),
                                dict(fam="presc", spec="lowrank", rank=2)])
            if cls == "symsh" and f["fam"] in ("zero", "ident", "bipart", "grid"):
                cls = "sym"
            nev, ncv = pick_dims(rng, n, extreme=rng.random() < 0.6)
            sel, sort = rng.choice(HERM_SEL), rng.choice(HERM_SORT)
        else:
            cls = rng.choice(["gen", "gen", "genrs", "gencs"])
            f = rng.choice([dict(fam="zero"), dict(fam="ident"), dict(fam="nilp"), dict(fam="lowrank", rank=rng.randint(1, 3)),
                            dict(fam="perm"), dict(fam="orth"), dict(fam="skew"), dict(fam="cyc"), dict(fam="fewdist", nd=rng.choice([1, 2, 3])),
                            dict(fam="blockdiag", blk=rng.choice([1, 2, 3])), dict(fam="rand"), dict(fam="tri")])
            if cls != "gen" and f["fam"] in ("zero", "nilp", "lowrank", "ident", "fewdist"):
                cls = "gen"   # shifts: the shifted matrix must be nonsingular and the shift not an eigenvalue
            nev, ncv = pick_dims(rng, n, gen=True, extreme=rng.random() < 0.6)
            sel, sort = rng.choice(GEN_RULES), rng.choice(GEN_RULES)
        mx = rng.choice([0, 1, 2, 3, 7, 30, 80])
        a0 = "%d:%d:%s:%d" % (sel, mx, tol_for(rng, ty), sort)
        hist = rng.choice(["N,I,C0", "N,V1,C0", "N,V2,C0", "N,I,C0,C0"])
        kw = dict(cls=cls, ty=ty, n=n, nev=nev, ncv=ncv, seed=rng.randint(1, 10 ** 6), hist=hist, args0=a0, lgs=lgs,
                  sv1=rng.choice(["rnd", "ones", "e1"]), sv2=rng.choice(["rnd2", "blk"]), meas=0, mconv=0, ref=0)
        kw.update(f)
        if cls == "symsh":
            kw["sigma"] = rng.choice(["0.37", "-1.63", "2.5"])
        if cls == "genrs":
            kw["sigma"] = rng.choice(["0.37", "-1.63", "2.45"])
        if cls == "gencs":
            kw["sigma"] = rng.choice(["0.37", "-1.13"])
            kw["sigmai"] = rng.choice(["0.8", "1.9"])
        out.append(desc(**kw))
    return out


def tie_descs(rng, count, types=("d",)):
    """C13: spectra with EXACT ties in the selection key at subspace sizes beyond the small-array paths of the sorting routines
    (ncv 17..40): zero, identity, few distinct eigenvalues, permutation / cyclic / orthogonal matrices, every rule as selection and as
    sorting argument, a second compute() without init()."""
    out = []
    for i in range(count):
        ty = rng.choice(types)
        herm = i % 2 == 0
        n = rng.randint(20, 44)
        if herm:
            cls = rng.choice(["sym", "sym", "herm"])
            f = rng.choice([dict(fam="zero"), dict(fam="ident"), dict(fam="presc", spec="rep", mult=rng.choice([n, n // 2, 5])),
                            dict(fam="diag", spec="rep", mult=rng.choice([4, 9])), dict(fam="presc", spec="lowrank", rank=rng.randint(1, 3))])
            if cls == "herm":
                f = rng.choice([dict(fam="zero"), dict(fam="presc", spec="rep", mult=rng.choice([n, 6])), dict(fam="presc", spec="lowrank", rank=2)])
            nev = rng.randint(1, 6)
            ncv = rng.randint(max(17, nev + 1), n)
            sel, sort = HERM_SEL[i // 2 % len(HERM_SEL)], HERM_SORT[i // 2 % len(HERM_SORT)]
        else:
            cls = "gen"
            f = rng.choice([dict(fam="zero"), dict(fam="ident"), dict(fam="perm"), dict(fam="cyc"), dict(fam="orth"), dict(fam="skew"),
                            dict(fam="fewdist", nd=rng.choice([1, 2, 3])), dict(fam="nilp")])
            nev = rng.randint(1, 6)
            ncv = rng.randint(max(17, nev + 2), n)
            sel, sort = GEN_RULES[i // 2 % len(GEN_RULES)], GEN_RULES[(i // 2 + 2) % len(GEN_RULES)]
        a0 = "%d:%d:%s:%d" % (sel, rng.choice([0, 1, 3, 30]), tol_for(rng, ty), sort)
        kw = dict(cls=cls, ty=ty, n=n, nev=nev, ncv=ncv, seed=rng.randint(1, 10 ** 6), hist=rng.choice(["N,I,C0", "N,V1,C0", "N,I,C0,C0"]), args0=a0,
                  lgs=rng.choice([0, 0, -10, 13]), sv1=rng.choice(["rnd", "ones", "e1"]), meas=0, mconv=0, ref=0)
        kw.update(f)
        out.append(desc(**kw))
    return out


def history_descs(rng, count, types=("d",), classes=("sym", "symsh", "herm", "gen", "genrs", "gencs"), maxlen=3, nmax=24, exhaustive_for=None):
    """C06: 'init(v); compute(args)' observed after every history over the call alphabet (prefix lengths 0..maxlen), against the
    baseline of a fresh object; P probes the operator before and after."""
    alphabet = ["I", "V1", "V2", "C0", "C1", "C2", "Z", "N"]
    out = []

    def one(cls, ty, prefix):
        gen = cls in ("gen", "genrs", "gencs")
        n = rng.randint(8, nmax)
        f = gen_fam(rng, n) if gen else herm_fam(rng, n)
        if cls == "herm" and f["fam"] not in ("rand", "presc", "blockdiag"):
            f = dict(fam="rand")
        if cls == "symsh" and f["fam"] in ("bipart", "grid"):
            f = dict(fam="rand")
        nev, ncv = pick_dims(rng, n, gen=gen)
        rules = GEN_RULES if gen else HERM_SEL
        sorts = GEN_RULES if gen else HERM_SORT
        a0 = "%d:%d:%s:%d" % (rng.choice(rules), rng.choice([80, 80, 3, 1]), tol_for(rng, ty), rng.choice(sorts))
        a1 = "%d:%d:%s:%d" % (rng.choice(rules), rng.choice([0, 1, 2, 80]), tol_for(rng, ty), rng.choice(sorts))
        # args2: a rule the family does not support => compute() throws invalid_argument
        if rng.random() < 0.5:
            a2 = "%d:%d:%s:%d" % (3 if gen else 1, 5, tol_for(rng, ty), rng.choice(sorts))
        else:
            a2 = "%d:%d:%s:%d" % (rng.choice(rules), rng.choice([5, 80]), tol_for(rng, ty), 3 if gen else 1)
        obs = rng.choice(["I,C0", "V1,C0", "I,C1"])
        hist = "N,P," + obs + ",P" + ("," + ",".join(prefix) if prefix else "") + "," + obs + ",P,N," + obs + ",P"
        kw = dict(cls=cls, ty=ty, n=n, nev=nev, ncv=ncv, seed=rng.randint(1, 10 ** 6), hist=hist, args0=a0, args1=a1, args2=a2,
                  sv1=rng.choice(["rnd", "rnd2"]), sv2=rng.choice(["rnd", "rnd2"]), meas=0, mconv=0, ref=0)
        kw.update(f)
        if cls == "symsh":
            kw["sigma"] = rng.choice(["0.37", "-1.63", "2.5"])
        if cls == "genrs":
            kw["sigma"] = rng.choice(["0.37", "-1.63", "2.45"])
        if cls == "gencs":
            kw["sigma"] = rng.choice(["0.37", "-1.13", "2.45"])
            kw["sigmai"] = rng.choice(["0.8", "1.9", "0.3"])
        return desc(**kw)

    if exhaustive_for:
        import itertools
        for cls in exhaustive_for:
            for L in range(0, maxlen + 1):
                for prefix in itertools.product(alphabet, repeat=L):
                    out.append(one(cls, "d", list(prefix)))
        return out
    for i in range(count):
        cls = rng.choice(classes)
        L = rng.randint(0, maxlen)
        prefix = [rng.choice(alphabet) for _ in range(L)]
        out.append(one(cls, rng.choice(types), prefix))
    return out


def fault_descs(rng, count, types=("d",), classes=("sym", "symsh", "herm", "gen", "genrs", "gencs"), nmax=16, stride=1, pairs=False, rep=1):
    """C14: fault sweep over every application index of a fault-free 'init(); compute()' (token A), optionally pairs (A2)."""
    out = []
    for i in range(count):
        cls = classes[i % len(classes)]
        ty = rng.choice(types)
        gen = cls in ("gen", "genrs", "gencs")
        n = rng.randint(8, nmax)
        f = gen_fam(rng, n) if gen else herm_fam(rng, n)
        if cls == "herm" and f["fam"] not in ("rand", "presc", "blockdiag"):
            f = dict(fam="rand")
        if cls == "symsh" and f["fam"] in ("bipart", "grid"):
            f = dict(fam="rand")
        nev, ncv = pick_dims(rng, n, gen=gen)
        rules = GEN_RULES if gen else HERM_SEL
        sorts = GEN_RULES if gen else HERM_SORT
        a0 = "%d:%d:%s:%d" % (rng.choice(rules), rng.choice([3, 6, 12]), tol_for(rng, ty), rng.choice(sorts))
        kw = dict(cls=cls, ty=ty, n=n, nev=nev, ncv=ncv, seed=rng.randint(1, 10 ** 6), hist="N,I,C0," + ("A2" if pairs else "A"), args0=a0,
                  meas=0, mconv=0, ref=0, fstride=stride, foff=rng.randint(0, max(0, stride - 1)), rep=rep)
        kw.update(f)
        if cls == "symsh":
            kw["sigma"] = rng.choice(["0.37", "-1.63", "2.5"])
        if cls == "genrs":
            kw["sigma"] = rng.choice(["0.37", "-1.63", "2.45"])
        if cls == "gencs":
            kw["sigma"] = rng.choice(["0.37", "-1.13", "2.45"])
            kw["sigmai"] = rng.choice(["0.8", "1.9", "0.3"])
        out.append(desc(**kw))
    return out


def geig_basic(rng, count, types=("d",), classes=("gchol", "greginv", "gsi", "gbuck", "gcay"), nmax=32, histories=None, meas=1, lgcs=(2, 6, 12, 20)):
    """C03 domain: symmetric A, SPD B (K) with condition number 2^lgc, every A/B storage pairing and triangle option, shifts that are
    not generalized eigenvalues, repeated init()/compute()."""
    out = []
    for i in range(count):
        cls = rng.choice(classes)
        ty = rng.choice(types)
        n = rng.randint(8, nmax)
        nev, ncv = pick_dims(rng, n)
        fam = rng.choice(["rand", "rand", "pencil"])
        kw = dict(cls=cls, ty=ty, n=n, nev=nev, ncv=ncv, seed=rng.randint(1, 10 ** 6), fam=fam, lgc=rng.choice(lgcs) if ty != "f" else rng.choice([2, 6]),
                  uplo=rng.choice(["ll", "uu", "ul", "lu"]), meas=meas)
        if fam == "pencil":
            kw["spec"] = rng.choice(["lin", "int", "unif"])
        if cls == "gchol":
            kw["store"] = rng.choice(["dd", "ss"])
        elif cls == "greginv":
            kw["store"] = "ss"
        else:
            kw["store"] = rng.choice(["dd", "ss", "sd", "ds"])
            kw["sigma"] = rng.choice(["0.37", "-1.63", "2.45", "0.11", "-0.53"])
            if rng.random() < 0.4:
                kw["presig"] = rng.choice(["0.21", "-0.77", "1.3"])   # the SymShiftInvert object was factorized with another shift before
        sel = rng.choice(HERM_SEL)
        if cls in ("gsi", "gbuck", "gcay"):
            sel = rng.choice([0, 3, 7, 8])   # SmallestMagn of nu (far from the shift) converges very slowly: documented as allowed to fail
        tol = tol_for(rng, ty)
        a0 = "%d:%d:%s:%d" % (sel, rng.choice([80, 80, 80, 1, 3, 10]), tol, rng.choice(HERM_SORT))
        a1 = "%d:%d:%s:%d" % (rng.choice([0, 3, 7]), rng.choice([0, 2, 80]), tol_for(rng, ty), rng.choice(HERM_SORT))
        kw["args0"] = a0
        kw["args1"] = a1
        kw["sv1"] = rng.choice(["rnd", "rnd2"])
        kw["hist"] = rng.choice(histories or ["N,I,C0", "N,I,C0", "N,V1,C0", "N,I,C0,V1,C1,I,C0", "N,I,C0,C1"])
        out.append(desc(**kw))
    return out


def selection_descs(rng, count, types=("d",), classes=("sym", "symsh", "herm", "gen", "genrs", "gencs", "gchol", "greginv", "gsi", "gbuck", "gcay")):
    """C04 domain: prescribed integer spectra (simple, well separated), every rule each solver supports, ncv >= 2 nev + 1,
    default start vector, half-integer shifts (never an eigenvalue)."""
    out = []
    for i in range(count):
        cls = classes[i % len(classes)]
        ty = rng.choice(types)
        gen = cls in ("gen", "genrs", "gencs")
        n = rng.randint(10, 22)
        nev = rng.randint(1, 4)
        # the property's domain is ncv >= 2 nev + 1; with the smallest subspaces the restarted iteration occasionally locks
        # onto an unwanted pair on the unchanged tree (fixed descriptors in FIXED_C04 record such cases), so the random
        # profile keeps a few extra vectors
        ncv = min(n, rng.randint(2 * nev + 4, 2 * nev + 10))
        if gen:
            nev = min(nev, n - 2)
        half = "%d.5" % rng.randint(-13, 12)
        kw = dict(cls=cls, ty=ty, n=n, nev=nev, ncv=ncv, seed=rng.randint(1, 10 ** 6), hist="N,I,C0", c04=1, meas=0, mconv=0)
        if gen:
            rule = rng.choice(GEN_RULES)
            kw.update(fam="presc", spec="cint", ncp=rng.randint(0, 3))
            if cls == "gencs":
                kw.update(ncp=0, sigma=half, sigmai=str(rng.randint(1, 4)))
                rule = 0
            if cls == "genrs":
                kw.update(sigma=half)
                rule = rng.choice([0, 1, 2])   # Smallest* of nu = far from the shift: converges very slowly (allowed to fail in the suite)
            if n - 2 * kw["ncp"] > 9:
                kw["n"] = 2 * kw["ncp"] + 9
                kw["ncv"] = min(kw["ncv"], kw["n"])
                kw["nev"] = min(kw["nev"], kw["n"] - 2, (kw["ncv"] - 1) // 2)
                kw["nev"] = max(1, kw["nev"])
            sort = rng.choice(GEN_RULES)
        else:
            rule = rng.choice(HERM_SEL)
            sort = rng.choice(HERM_SORT)
            if cls in ("sym", "symsh", "herm"):
                kw.update(fam="presc", spec="evenintnz")
            else:
                kw.update(fam="pencil", spec="evenintnz", lgc=2, uplo=rng.choice(["ll", "uu", "ul", "lu"]),
                          store="ss" if cls == "greginv" else rng.choice(["dd", "ss"] if cls == "gchol" else ["dd", "ss", "sd", "ds"]))
            if cls in ("symsh", "gsi", "gbuck", "gcay"):
                kw["sigma"] = half
                # SmallestMagn of nu = farthest from the shift: converges very slowly, use the rules with a practical meaning
                rule = rng.choice([0, 3, 7, 8])
        tol = "-4" if ty == "f" else "-10"
        kw["args0"] = "%d:%d:%s:%d" % (rule, 500, tol, sort)
        # "after any sequence of init() and compute() calls": a third of the runs ask the same object for a second (third) answer
        # with ANOTHER rule of the same domain, with and without a new init() in between
        if i % 3 == 2:
            if cls == "gencs":
                rule1 = 0
            elif cls == "genrs":
                rule1 = rng.choice([r for r in (0, 1, 2) if r != rule] or [0])
            elif gen:
                rule1 = rng.choice([r for r in GEN_RULES if r != rule])
            elif cls in ("symsh", "gsi", "gbuck", "gcay"):
                rule1 = rng.choice([r for r in (0, 3, 7, 8) if r != rule])
            else:
                rule1 = rng.choice([r for r in HERM_SEL if r != rule])
            kw["args1"] = "%d:%d:%s:%d" % (rule1, 500, tol, rng.choice(GEN_RULES if gen else HERM_SORT))
            # (a second compute() WITHOUT a new init() continues a factorization that has already converged for the other rule: outside C04's
            # quantifier - "default start vector" - and sometimes wrong on the unchanged tree; those calls are made but not judged)
            kw["hist"] = rng.choice(["N,I,C1,I,C0", "N,I,C1,I,C0", "N,I,C0,C1,I,C0", "N,I,C1,C0,I,C1"])
            kw["sv1"] = "rnd"
        out.append(desc(**kw))
    return out


GEIG = ("gchol", "greginv", "gsi", "gbuck", "gcay")


def geig_kw(rng, cls, ty, nmax=20):
    n = rng.randint(8, nmax)
    nev, ncv = pick_dims(rng, n)
    kw = dict(cls=cls, ty=ty, n=n, nev=nev, ncv=ncv, seed=rng.randint(1, 10 ** 6), fam=rng.choice(["rand", "pencil"]), lgc=rng.choice([2, 6]),
              uplo=rng.choice(["ll", "uu", "ul", "lu"]))
    if kw["fam"] == "pencil":
        kw["spec"] = rng.choice(["lin", "unif"])
    if cls == "gchol":
        kw["store"] = rng.choice(["dd", "ss"])
    elif cls == "greginv":
        kw["store"] = "ss"
    else:
        kw["store"] = rng.choice(["dd", "ss", "sd", "ds"])
        kw["sigma"] = rng.choice(["0.37", "-1.63", "2.45"])
        if rng.random() < 0.4:
            kw["presig"] = rng.choice(["0.21", "-0.77", "1.3"])   # the SymShiftInvert object was factorized with another shift before
    return kw


def history_descs_geig(rng, count, types=("d",), maxlen=2):
    """C06 for the generalized solvers: same observation scheme as history_descs; P probes the A-side (or, for the regular
    inverse mode, the B-side) operator."""
    alphabet = ["I", "V1", "C0", "C1", "N"]
    out = []
    for i in range(count):
        cls = GEIG[i % len(GEIG)]
        ty = rng.choice(types)
        kw = geig_kw(rng, cls, ty)
        sel = rng.choice([0, 3, 7]) if cls in ("gsi", "gbuck", "gcay") else rng.choice(HERM_SEL)
        kw["args0"] = "%d:%d:%s:%d" % (sel, rng.choice([80, 3]), tol_for(rng, ty), rng.choice(HERM_SORT))
        kw["args1"] = "%d:%d:%s:%d" % (rng.choice([0, 3, 7]), rng.choice([0, 1, 80]), tol_for(rng, ty), rng.choice(HERM_SORT))
        prefix = [rng.choice(alphabet) for _ in range(rng.randint(0, maxlen))]
        obs = rng.choice(["I,C0", "V1,C0"])
        kw["hist"] = "N,P," + obs + ",P" + ("," + ",".join(prefix) if prefix else "") + "," + obs + ",P,N," + obs + ",P"
        kw.update(sv1="rnd", meas=0, mconv=0, ref=0)
        out.append(desc(**kw))
    return out


def pub_history_descs(rng, seqs, classes=("sym", "symsh", "herm", "gen", "genrs", "gencs", "gchol", "greginv", "gsi", "gbuck", "gcay"), types=("d",), per_seq=1):
    """C05/C06/C14: the public call histories GENERATED BY TLC from spec/IRPublic.tla (tools/krygen.py pub_sequences: every sequence over
    N I V1 V2 Z C0 C1 C2 C3 F1 up to a length bound), each executed on a new object from its construction and followed by the observed pair
    'init(v); compute(args)', whose digest must equal that of the same pair on a fresh object.  args2 has an unsupported selection rule, args3 a supported selection and an unsupported sorting
    rule; F0 disarms a fault the history may have left armed."""
    out = []
    i = 0
    for seq in seqs:
        for rep in range(per_seq):
            cls = classes[i % len(classes)]
            i += 1
            ty = rng.choice(types)
            gen = cls in ("gen", "genrs", "gencs")
            if cls in GEIG:
                kw = geig_kw(rng, cls, ty, nmax=14)
                rules = [0, 3, 7] if cls in ("gsi", "gbuck", "gcay") else HERM_SEL
                sorts = HERM_SORT
            else:
                n = rng.randint(8, 14)
                f = gen_fam(rng, n) if gen else herm_fam(rng, n)
                if cls == "herm" and f["fam"] not in ("rand", "presc", "blockdiag"):
                    f = dict(fam="rand")
                if cls == "symsh" and f["fam"] in ("bipart", "grid"):
                    f = dict(fam="rand")
                nev, ncv = pick_dims(rng, n, gen=gen)
                kw = dict(cls=cls, ty=ty, n=n, nev=nev, ncv=ncv, seed=rng.randint(1, 10 ** 6))
                kw.update(f)
                rules = GEN_RULES if gen else HERM_SEL
                sorts = GEN_RULES if gen else HERM_SORT
                if cls == "symsh":
                    kw["sigma"] = rng.choice(["0.37", "-1.63", "2.5"])
                    rules = [0, 3, 7, 8]
                if cls == "genrs":
                    kw["sigma"] = rng.choice(["0.37", "-1.63", "2.45"])
                    rules = [0, 1, 2]
                if cls == "gencs":
                    kw["sigma"] = rng.choice(["0.37", "-1.13", "2.45"])
                    kw["sigmai"] = rng.choice(["0.8", "1.9", "0.3"])
                    rules = [0]
                if cls == "gen":
                    rules = [0, 1, 2, 5, 6]
            kw["args0"] = "%d:%d:%s:%d" % (rng.choice(rules), rng.choice([80, 80, 3]), tol_for(rng, ty), rng.choice(sorts))
            kw["args1"] = "%d:%d:%s:%d" % (rng.choice(rules), rng.choice([0, 1, 2]), tol_for(rng, ty), rng.choice(sorts))
            kw["args2"] = "%d:%d:%s:%d" % (3 if gen else 1, 5, tol_for(rng, ty), rng.choice(sorts))
            kw["args3"] = "%d:%d:%s:%d" % (rng.choice(rules), rng.choice([2, 80]), tol_for(rng, ty), 3 if gen else 1)
            obs = rng.choice(["I,C0", "V1,C0", "I,C1"])
            # baseline on a fresh object; then a second object lives through the generated history FROM ITS CONSTRUCTION (the generator's
            # initial state is the fresh object) and is observed with the same pair
            # shift classes: between the two objects somebody else uses the OPERATOR object with another shift and puts the shift back (token S):
            # the operator's behaviour (probe P) and the outcome of the observed pair must not depend on that
            resh = ",S,P" if cls in ("symsh", "genrs", "gencs", "gsi", "gbuck", "gcay") else ""
            kw["hist"] = "N,P," + obs + ",P" + resh + ",N" + ("," + seq if seq else "") + ",F0," + obs + ",P"
            if resh:
                kw["resig"] = rng.choice(["0.21", "-0.77", "1.3", "-20.37", "0.013"])   # never an eigenvalue of the integer / half-integer prescribed spectra
            kw.update(sv1=rng.choice(["rnd", "rnd2"]), sv2=rng.choice(["rnd", "rnd2"]), meas=0, mconv=0, ref=0)
            out.append(desc(**kw))
    return out


def eigvec_start_descs(rng, count, types=("d",)):
    """C06/C14: init(v) with v an EXACT eigenvector (e1 for a diagonal / upper triangular matrix): the residual of the step-1
    factorization is exactly zero, which takes the 'force f to zero' branch of Arnoldi::init on a reused object."""
    out = []
    for i in range(count):
        gen = i % 2 == 1
        ty = rng.choice(types)
        n = rng.randint(8, 20)
        nev, ncv = pick_dims(rng, n, gen=gen)
        rules = GEN_RULES if gen else HERM_SEL
        sorts = GEN_RULES if gen else HERM_SORT
        kw = dict(cls="gen" if gen else "sym", ty=ty, n=n, nev=nev, ncv=ncv, seed=rng.randint(1, 10 ** 6),
                  args0="%d:%d:%s:%d" % (rng.choice(rules), 30, tol_for(rng, ty), rng.choice(sorts)),
                  args1="%d:%d:%s:%d" % (rng.choice(rules), 2, tol_for(rng, ty), rng.choice(sorts)),
                  sv1="e1", sv2="rnd", hist="N,V1,C0,N,I,C1,V2,C0,V1,C0,N,V1,C0", meas=0, mconv=0, ref=0)
        kw.update(dict(fam="tri") if gen else dict(fam="diag", spec="lin"))
        out.append(desc(**kw))
    return out


def fault_descs_extra(rng, tier_quick=True):
    """C14 additions: breakdown-heavy inputs (expand_basis applies the operator as well) and faults in the B operator of the
    generalized modes."""
    out = []
    stride = 3 if tier_quick else 1
    for i in range(3 if tier_quick else 10):
        n = rng.randint(10, 16)
        out.append(desc(cls="sym", ty="d", n=n, nev=2, ncv=min(n, 7 + i % 3), seed=rng.randint(1, 10 ** 6), hist="N,I,C0,A", args0="0:6:-10:3",
                        meas=0, mconv=0, ref=0, fstride=1 if n <= 12 else stride, foff=0, fam="presc", spec="lowrank", rank=2 + i % 2))
        out.append(desc(cls="gen", ty="d", n=n, nev=2, ncv=min(n, 7 + i % 3), seed=rng.randint(1, 10 ** 6), hist="N,I,C0,A", args0="0:6:-10:0",
                        meas=0, mconv=0, ref=0, fstride=1 if n <= 12 else stride, foff=0, fam="lowrank", rank=2 + i % 2))
    for i, cls in enumerate(["greginv", "gsi", "gcay", "gbuck", "gchol"] * (1 if tier_quick else 3)):
        kw = geig_kw(rng, cls, "d", nmax=14)
        sel = 3 if cls == "gbuck" else 0
        # faults in the B operator: EVERY application index also in the quick tier (B is applied at a few isolated points - once per restart in
        # compress_V, in the norms of expand_basis - that a strided sweep would step over)
        tb = i % 2 == 0
        kw.update(hist="N,I,C0,A", args0="%d:4:-8:3" % sel, meas=0, mconv=0, ref=0, fstride=1 if tb else stride + (2 if tier_quick else 0),
                  foff=0 if tb else rng.randint(0, 2), ftarget="b" if tb else "a")
        out.append(desc(**kw))
    # fault kinds: (1) an exception type OUTSIDE the std::exception hierarchy, at every application index - the complex-shift solver included,
    # whose eigenvalue recovery applies the operator after the counted iteration; (2) the user's A operator RETURNS a NaN entry once and the
    # library's own B wrapper (SparseRegularInverse: conjugate gradients) is what throws - it must not stay in the failed state
    for i, cls in enumerate(["gencs", "sym", "gen", "genrs", "gencs"][:(3 if tier_quick else 5)]):
        gen = cls != "sym"
        n = rng.randint(9, 13)
        nev, ncv = pick_dims(rng, n, gen=gen)
        kw = dict(cls=cls, ty="d", n=n, nev=nev, ncv=ncv, seed=rng.randint(1, 10 ** 6), fam="rand", hist="N,I,C0,A", args0="0:4:-8:%d" % (0 if gen else 3),
                  meas=0, mconv=0, ref=0, fstride=1 if cls == "gencs" or not tier_quick else 3, foff=0, fkind=1)
        if cls == "genrs":
            kw["sigma"] = "0.37"
        if cls == "gencs":
            kw.update(sigma="0.37", sigmai="0.8")
        out.append(desc(**kw))
    for i in range(2 if tier_quick else 6):
        kw = geig_kw(rng, "greginv", "d", nmax=12)
        kw.update(hist="N,I,C0,A", args0="0:3:-8:3", meas=0, mconv=0, ref=0, fstride=1, foff=0, ftarget="a", fkind=2)
        out.append(desc(**kw))
    return out


def breakdown_descs(rng, count, types=("d",), gen=None, meas=2):
    """Exact Krylov breakdown: low rank, start vector inside a small invariant subspace (block of a block-diagonal matrix, an
    exact eigenvector), few distinct eigenvalues: expand_basis() continues the factorization with a fresh direction."""
    out = []
    for i in range(count):
        g = (i % 2 == 1) if gen is None else gen
        ty = rng.choice(types)
        n = rng.randint(10, 22)
        tol = tol_for(rng, ty)
        if g:
            # rank-1 general matrices and scaled (2^+-20) breakdown inputs violate C02/C07 on the unchanged tree: recorded findings on
            # fixed descriptors (check.py FIXED_BREAKDOWN), not part of the random profile
            f, sv = rng.choice([(dict(fam="lowrank", rank=rng.randint(2, 3)), "rnd"), (dict(fam="blockdiag", blk=rng.randint(2, 4)), "blk"),
                                (dict(fam="tri"), "e1"), (dict(fam="fewdist", nd=rng.randint(2, 3)), "rnd"),
                                # ones is an eigenvector to working accuracy, not exactly: tiny NONZERO residual of the step-1 factorization
                                # (before fix 2a9e216 about 1 % of these inputs lost the orthogonality of V; two of them are kept as
                                # regression inputs in check.py FIXED_BREAKDOWN)
                                (dict(fam="rowsum", rs=rng.choice([10, 10, -12, 25])), "ones")])
            nev, ncv = rng.randint(1, 2), rng.randint(7, 9)
            a0 = "%d:%d:%s:%d" % (rng.choice([0, 1]), 20, tol, rng.choice(GEN_RULES))
            cls = "gen"
        else:
            f, sv = rng.choice([(dict(fam="presc", spec="lowrank", rank=rng.randint(1, 3)), "rnd"), (dict(fam="blockdiag", blk=rng.randint(2, 4)), "blk"),
                                (dict(fam="diag", spec="lin"), "e1"), (dict(fam="presc", spec="rep", mult=rng.choice([5, 6, 7])), "rnd"),
                                (dict(fam="rowsum", rs=rng.choice([10, 10, -12, 25])), "ones")])
            nev, ncv = rng.randint(1, 2), rng.randint(7, 9)
            a0 = "%d:%d:%s:%d" % (rng.choice([0, 3]), 20, tol, rng.choice(HERM_SORT))
            cls = rng.choice(["sym", "sym", "herm"]) if f["fam"] in ("presc", "blockdiag") else "sym"
            if f["fam"] == "rowsum":
                # every rule, so that a spurious zero Ritz value (if the tiny residual were normalised) would be wanted by some run
                a0 = "%d:%d:%s:%d" % (rng.choice(HERM_SEL), 20, tol, rng.choice(HERM_SORT))
                nev = rng.randint(1, 3)
        kw = dict(cls=cls, ty=ty, n=n, nev=nev, ncv=min(n, ncv), seed=rng.randint(1, 10 ** 6), hist="N,V1,C0", sv1=sv, args0=a0, meas=meas, ref=0,
                  lgs=0)
        kw.update(f)
        # a third of the invariant-subspace starts are NEAR breakdowns instead: the start vector is 10^dlt away from the subspace, so the
        # residual at the would-be breakdown is about 10^dlt - far above rounding level; it must be kept, not treated as noise
        near = {"blk": "nearblk", "e1": "neare1"}.get(sv)
        if near and ty != "f" and i % 3 == 0:
            kw["sv1"] = near
            kw["dlt"] = -(6 + (i // 3) % 8)
            kw["args0"] = kw["args0"].rsplit(":", 2)[0] + ":-10:" + kw["args0"].rsplit(":", 1)[1]
        out.append(desc(**kw))
    return out


def near_descs(rng, classes=("sym", "herm", "gen"), types=("d",), meas=2):
    """NEAR breakdowns, systematically: start vector 10^dlt (dlt = -8 .. -15) away from an invariant subspace - the leading block of a
    block-diagonal matrix (the near breakdown happens inside factorize_from, at step blk) or an eigenvector e1 of a diagonal / triangular
    matrix (it happens in Arnoldi::init).  The residual at the would-be breakdown is about 10^dlt: far above rounding level, so it must
    be kept and the basis must stay orthonormal; thresholds that are a few orders too generous drop it."""
    out = []
    i = 0
    for cls in classes:
        gen = cls == "gen"
        for dlt in (-8, -9, -10, -11, -12, -13, -14, -15):
            for kind in ("blk2", "blk3", "blk4", "e1"):
                if dlt < -12 and kind in ("blk3", "blk4"):
                    continue   # down to the level where the residual is a few hundred rounding errors: e1 (in init) and one block size
                i += 1
                ty = types[i % len(types)]
                n = 12 + (i * 5) % 11
                if kind == "e1":
                    if cls == "herm":
                        continue
                    f, sv = (dict(fam="tri") if gen else dict(fam="diag", spec="lin")), "neare1"
                else:
                    f, sv = dict(fam="blockdiag", blk=int(kind[3])), "nearblk"
                rule = (0, 1)[i % 2] if gen else (0, 3, 7)[i % 3]
                if kind == "e1" and not gen:
                    rule = 7    # diag(1..n): e1 belongs to the smallest eigenvalue, so the pair the near breakdown concerns is a wanted one
                kw = dict(cls=cls, ty=ty, n=n, nev=1 + i % 2, ncv=min(n, 7 + i % 3), seed=rng.randint(1, 10 ** 6), hist="N,V1,C0", sv1=sv,
                          args0="%d:20:-10:%d" % (rule, rule), meas=meas, ref=0, lgs=0, dlt=dlt)
                kw.update(f)
                out.append(desc(**kw))
        # start vector = an eigenvector of a DENSE matrix to working accuracy (a column of the orthogonal factor the matrix was built from,
        # rounded to the scalar type): the residual of the step-1 factorization is pure rounding noise, neither exactly zero nor far above it
        if not gen:
            for j in range(4):
                i += 1
                n = 14 + 3 * j
                kw = dict(cls=cls, ty=types[i % len(types)], n=n, nev=3, ncv=min(n, 9 + j), seed=rng.randint(1, 10 ** 6), hist="N,V1,C0", sv1="eig",
                          args0="%d:30:-10:%d" % ((3, 0, 7, 3)[j], (3, 3, 7, 0)[j]), meas=meas, ref=0, lgs=0, fam="presc", spec=("lin", "unif", "lin", "geo")[j])
                if kw["spec"] == "geo":
                    kw["span"] = 10
                out.append(desc(**kw))
    return out


# ------------------------------------------------------------------------------------------ C07: TLC-generated call sequences
def krylov_descs(rng, tier, types=("d",)):
    """Descriptors for harness/drv_krylov.cpp: every behaviour of spec/Krylov.tla up to the bounds of the tier (tools/krygen.py),
    each executed on one matrix; matrices, scalar types, shift strategies and object kinds rotate over the sequences."""
    import krygen
    plan = [(1, 5, 6, None, 0), (2, 5, 6, None, 0), (1, 4, 8, 5000, 2), (2, 4, 8, 4000, 2)] if tier == "quick" else \
           [(1, 5, 7, None, 0), (2, 5, 7, None, 0), (1, 4, 8, None, 0), (2, 4, 8, None, 0), (1, 6, 8, 60000, 1), (2, 6, 8, 60000, 1), (1, 3, 10, 40000, 3)]
    out, infos = [], []
    i = 0
    for (kind, m, maxlen, cap, minv) in plan:
        seqs, info = krygen.sequences(kind, m, maxlen)
        if not info.get("ok"):
            raise RuntimeError("MC_Krylov (kind %d, m %d, len %d) did not pass: %s" % (kind, m, maxlen, info.get("stdout_tail", "")))
        if minv:
            seqs = [x for x in seqs if x.count(",V") >= minv]
        total = len(seqs)
        if cap is not None and len(seqs) > cap:
            seqs = rng.sample(seqs, cap)
        info = dict(info, behaviours=total, executed=len(seqs))
        infos.append(info)
        for x in seqs:
            i += 1
            ty = types[i % len(types)]
            n = m + 6 + (i * 7) % 17
            sh = ("ritz", "rand", "far", "ritz")[i % 4]
            if kind == 1:
                k = "arn"
                fam = (dict(fam="rand"), dict(fam="presc", ncp=(i // 3) % max(1, n // 2)), dict(fam="nonnormal", ncp=(i // 5) % max(1, n // 3)), dict(fam="tri"),
                       dict(fam="rand"), dict(fam="blockdiag", blk=3 + i % 3))[(i // 4) % 6]
            else:
                k = ("lan", "clan", "lan", "lanB")[(i // 4) % 4]
                if k == "clan":
                    fam = (dict(fam="rand"), dict(fam="presc", spec="lin"), dict(fam="blockdiag", blk=2 + i % 3))[(i // 16) % 3]
                else:
                    fam = (dict(fam="rand"), dict(fam="presc", spec="lin"), dict(fam="presc", spec="clust", nc=2 + i % 3, w=(3, 5, 8)[i % 3]),
                           dict(fam="presc", spec="rep", mult=2 + i % 2), dict(fam="sprand", dens=30), dict(fam="lap"),
                           dict(fam="graded", span=(10, 20)[i % 2]), dict(fam="blockdiag", blk=2 + i % 3))[(i // 16) % 8]
            kw = dict(mode="kry", kind=k, ty=ty, n=n, m=m, seed=1 + (i * 2654435761) % 999983, sh=sh, ops=x)
            kw.update(fam)
            if k == "lanB":
                kw["lgc"] = (2, 4, 6)[i % 3]
            out.append(desc(**kw))
    return out, infos
