#!/bin/bash
# usage: seedrun.sh <seed id e.g. C01-A> [check ...]   -- runs the property's quick check against a scratch worktree with the seeded change
id="$1"; shift; prop=${id%-*}; checks="${@:-$prop}"
wt=/tmp/sr_$id
cd /repo; git worktree remove --force $wt 2>/dev/null; git worktree add --detach $wt HEAD >/dev/null 2>&1
cd $wt && git apply /verif/seeded/$id/patch.diff || { echo "$id PATCH-FAILS"; cd /repo; git worktree remove --force $wt; exit 0; }
cd /verif
for c in $checks; do
  out=$(VERIF_REPO=$wt python3 tools/check.py $c --tier quick 2>&1)
  rc=$?
  echo "$id $c rc=$rc nviol=$(echo "$out" | grep -c '^VIOLATION') rules: $(echo "$out" | grep '^VIOLATION' | sed 's/.*rule=\([^ ]*\).*/\1/' | sort | uniq -c | tr '\n' ' ') $(echo "$out" | grep -E 'INFRA' | cut -c1-200)"
done
cd /repo; git worktree remove --force $wt 2>/dev/null
