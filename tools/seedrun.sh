#!/bin/bash
# usage: seedrun.sh <seed id e.g. C01-A> [check ...]   -- runs the property's quick check against a scratch worktree with the seeded change
# (the worktree is created and removed under a lock: concurrent `git worktree add/remove` in one repository race)
id="$1"; shift; prop=${id%-*}; checks="${@:-$prop}"
wt=/tmp/sr_$id
lock=/tmp/seedrun.lock
flock $lock sh -c "git -C /repo worktree remove --force $wt 2>/dev/null; git -C /repo worktree prune; git -C /repo worktree add --detach $wt HEAD >/dev/null 2>&1"
cd $wt 2>/dev/null && git apply /verif/seeded/$id/patch.diff || { echo "$id PATCH-FAILS"; flock $lock git -C /repo worktree remove --force $wt 2>/dev/null; exit 0; }
cd /verif
for c in $checks; do
  out=$(VERIF_REPO=$wt python3 tools/check.py $c --tier quick 2>&1)
  rc=$?
  echo "$id $c rc=$rc nviol=$(echo "$out" | grep -c '^VIOLATION') rules: $(echo "$out" | grep '^VIOLATION' | sed 's/.*rule=\([^ ]*\).*/\1/' | sort | uniq -c | tr '\n' ' ') $(echo "$out" | grep -E 'INFRA' | cut -c1-200)"
done
flock $lock git -C /repo worktree remove --force $wt 2>/dev/null
