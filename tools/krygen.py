#!/usr/bin/env python3
"""Behaviours of spec/Krylov.tla as call sequences for harness/drv_krylov.cpp.

TLC explores MC_Krylov (every sequence of public calls up to MaxLen on an object with m = M) with the design
invariants switched on and dumps the reachable states; each state carries its call history, so the states at
depth MaxLen are exactly the complete behaviours.  The result is cached under .cache/kry keyed by the text of
the specification and the constants."""
import hashlib
import json
import os
import re
import shutil
import subprocess
import sys

ROOT = os.path.dirname(os.path.dirname(os.path.abspath(__file__)))
SPEC = os.path.join(ROOT, "spec")
sys.path.insert(0, os.path.join(ROOT, "tools"))
import vlib  # noqa: E402


def _key(kind, m, maxlen, probes):
    h = hashlib.sha256()
    for f in ("Krylov.tla", "MC_Krylov.tla"):
        with open(os.path.join(SPEC, f), "rb") as fh:
            h.update(fh.read())
    h.update(("%d/%d/%d/%d" % (kind, m, maxlen, probes)).encode())
    return h.hexdigest()[:16]


def _tok(t):
    # <<"E", 3>> -> E3 ; <<"T", 4, 5>> -> T4:5
    parts = [p.strip() for p in t.split(",")]
    name = parts[0].strip('"')
    if len(parts) == 1:
        return name
    if len(parts) == 2:
        return name + parts[1]
    return name + parts[1] + ":" + parts[2]


def sequences(kind, m, maxlen, probes=1, timeout=900):
    """-> (list of 'I,E3,...' strings for all behaviours of length maxlen, dict(states=..., ok=bool))"""
    cdir = os.path.join(ROOT, ".cache", "kry")
    os.makedirs(cdir, exist_ok=True)
    key = _key(kind, m, maxlen, probes)
    cfile = os.path.join(cdir, key + ".json")
    if os.path.exists(cfile):
        with open(cfile) as fh:
            o = json.load(fh)
        return o["seqs"], o["info"]
    wd = os.path.join(cdir, key + ".work")
    shutil.rmtree(wd, ignore_errors=True)
    os.makedirs(wd)
    cfg = os.path.join(wd, "gen.cfg")
    with open(cfg, "w") as fh:
        fh.write("SPECIFICATION Spec\nCONSTANTS\n  Kind = %d\n  M = %d\n  MaxLen = %d\n  MaxProbes = %d\n" % (kind, m, maxlen, probes))
        fh.write("INVARIANTS Inv_Type Inv_Dim Inv_New Inv_Shift Inv_Fact Inv_HandOver Inv_Ops Inv_NoWedge\nCHECK_DEADLOCK FALSE\n")
    dump = os.path.join(wd, "states.dump")
    cmd = vlib.tlc_cmd("MC_Krylov.tla", cfg, 4, os.path.join(wd, "md"), xmx="6g", extra=["-dump", dump])
    p = subprocess.run(cmd, cwd=SPEC, stdout=subprocess.PIPE, stderr=subprocess.STDOUT, universal_newlines=True, timeout=timeout)
    ok = "Model checking completed. No error has been found." in p.stdout
    mm = re.search(r"(\d+) states generated, (\d+) distinct states found", p.stdout)
    info = dict(ok=ok, states=int(mm.group(2)) if mm else 0, kind=kind, m=m, maxlen=maxlen, probes=probes)
    seqs = []
    if ok:
        with open(dump) as fh:
            txt = fh.read()
        for hm in re.finditer(r"hist \|->\s+<<(.*?)>>,\s+ph \|->", txt, re.S):
            body = hm.group(1)
            toks = re.findall(r"<<([^<>]*)>>", body)
            if len(toks) == maxlen:
                seqs.append(",".join(_tok(t) for t in toks))
        seqs.sort()
    else:
        info["stdout_tail"] = p.stdout[-2000:]
    shutil.rmtree(wd, ignore_errors=True)
    if ok:
        with open(cfile, "w") as fh:
            json.dump(dict(seqs=seqs, info=info), fh)
    return seqs, info


def svd_sequences(maxlen, narg=3, ks=(1, 3, 4), maxconv=2, timeout=900):
    """All call sequences of MC_SVDSeq of length maxlen as 'C0,U3,V1,S' strings (histories deduplicated over the nondeterministic nconv)."""
    cdir = os.path.join(ROOT, ".cache", "kry")
    os.makedirs(cdir, exist_ok=True)
    h = hashlib.sha256()
    for f in ("PartialSVDOps.tla", "MC_SVDSeq.tla"):
        with open(os.path.join(SPEC, f), "rb") as fh:
            h.update(fh.read())
    h.update(("%d/%d/%s/%d" % (maxlen, narg, ks, maxconv)).encode())
    key = "svd_" + h.hexdigest()[:16]
    cfile = os.path.join(cdir, key + ".json")
    if os.path.exists(cfile):
        with open(cfile) as fh:
            o = json.load(fh)
        return o["seqs"], o["info"]
    wd = os.path.join(cdir, key + ".work")
    shutil.rmtree(wd, ignore_errors=True)
    os.makedirs(wd)
    cfg = os.path.join(wd, "gen.cfg")
    with open(cfg, "w") as fh:
        fh.write("SPECIFICATION SSpec\nCONSTANTS\n  MaxConv = %d\n  V_Invalidate = TRUE\n  MaxLen = %d\n  NArg = %d\n  Ks = {%s}\n" % (maxconv, maxlen, narg, ", ".join(str(k) for k in ks)))
        fh.write("INVARIANTS SeqCacheIsCurrent SeqNoIndexError SeqColsReturned\nCHECK_DEADLOCK FALSE\n")
    dump = os.path.join(wd, "states.dump")
    cmd = vlib.tlc_cmd("MC_SVDSeq.tla", cfg, 4, os.path.join(wd, "md"), xmx="6g", extra=["-dump", dump])
    p = subprocess.run(cmd, cwd=SPEC, stdout=subprocess.PIPE, stderr=subprocess.STDOUT, universal_newlines=True, timeout=timeout)
    ok = "Model checking completed. No error has been found." in p.stdout
    mm = re.search(r"(\d+) states generated, (\d+) distinct states found", p.stdout)
    info = dict(ok=ok, states=int(mm.group(2)) if mm else 0, module="MC_SVDSeq", maxlen=maxlen, narg=narg, ks=list(ks))
    seqs = set()
    if ok:
        with open(dump) as fh:
            txt = fh.read()
        for hm in re.finditer(r"/\\ hist = <<(.*?)>>\n\n", txt + "\n\n", re.S):
            toks = re.findall(r"<<([^<>]*)>>", hm.group(1))
            if len(toks) == maxlen:
                seqs.add(",".join(_tok(t) for t in toks))
    else:
        info["stdout_tail"] = p.stdout[-2000:]
    seqs = sorted(seqs)
    shutil.rmtree(wd, ignore_errors=True)
    if ok:
        with open(cfile, "w") as fh:
            json.dump(dict(seqs=seqs, info=info), fh)
    return seqs, info


def pub_sequences(maxlen, nev=2, ncv=5, timeout=900):
    """All public call histories of MC_IRPubGen (IRPublic.tla) up to length maxlen, as lists of history tokens for harness/ir_run.h
    ('N', 'I', 'V1', 'V2', 'Z', 'C0'..'C3', 'F1'); every prefix is a history of its own, so the dump's states at ALL depths are used."""
    cdir = os.path.join(ROOT, ".cache", "kry")
    os.makedirs(cdir, exist_ok=True)
    h = hashlib.sha256()
    for f in ("IRPublic.tla", "MC_IRPubGen.tla"):
        with open(os.path.join(SPEC, f), "rb") as fh:
            h.update(fh.read())
    h.update(("%d/%d/%d" % (maxlen, nev, ncv)).encode())
    key = "pub_" + h.hexdigest()[:16]
    cfile = os.path.join(cdir, key + ".json")
    if os.path.exists(cfile):
        with open(cfile) as fh:
            o = json.load(fh)
        return o["seqs"], o["info"]
    wd = os.path.join(cdir, key + ".work")
    shutil.rmtree(wd, ignore_errors=True)
    os.makedirs(wd)
    cfg = os.path.join(wd, "gen.cfg")
    with open(cfg, "w") as fh:
        fh.write("SPECIFICATION GSpec\nCONSTANTS\n  Nev = %d\n  Ncv = %d\n  MaxLen = %d\n  MxOf <- MC_MxOf\n" % (nev, ncv, maxlen))
        fh.write("INVARIANTS GenTypeOK GenStatusIffAll GenInitMakesFresh GenNotComputedBefore\nCHECK_DEADLOCK FALSE\n")
    dump = os.path.join(wd, "states.dump")
    cmd = vlib.tlc_cmd("MC_IRPubGen.tla", cfg, 4, os.path.join(wd, "md"), xmx="6g", extra=["-dump", dump])
    p = subprocess.run(cmd, cwd=SPEC, stdout=subprocess.PIPE, stderr=subprocess.STDOUT, universal_newlines=True, timeout=timeout)
    ok = "Model checking completed. No error has been found." in p.stdout
    mm = re.search(r"(\d+) states generated, (\d+) distinct states found", p.stdout)
    info = dict(ok=ok, states=int(mm.group(2)) if mm else 0, generated=int(mm.group(1)) if mm else 0, module="MC_IRPubGen", maxlen=maxlen, nev=nev, ncv=ncv)
    seqs = set()
    if ok:
        with open(dump) as fh:
            for line in fh:
                if line.startswith("/\\ hist = "):
                    toks = re.findall(r"<<([^<>]*)>>", line[len("/\\ hist = <<"):])
                    seqs.add(",".join(_tok(t).replace(":", "") for t in toks))
    else:
        info["stdout_tail"] = p.stdout[-2000:]
    seqs = sorted(seqs)
    shutil.rmtree(wd, ignore_errors=True)
    if ok:
        with open(cfile, "w") as fh:
            json.dump(dict(seqs=seqs, info=info), fh)
    return seqs, info


if __name__ == "__main__":
    if sys.argv[1] == "pub":
        s, info = pub_sequences(int(sys.argv[2]))
        print(info, len(s))
        for x in s[:10] + s[-10:]:
            print(repr(x))
        sys.exit(0)
    if sys.argv[1] == "svd":
        s, info = svd_sequences(int(sys.argv[2]))
        print(info, len(s))
        for x in s[:10]:
            print(x)
        sys.exit(0)
    k, m, L = int(sys.argv[1]), int(sys.argv[2]), int(sys.argv[3])
    s, info = sequences(k, m, L, int(sys.argv[4]) if len(sys.argv) > 4 else 1)
    print(info, len(s))
    for x in s[:10]:
        print(x)
