// Driver for C08 (shifted QR helpers) and C09 (small dense eigen-decompositions): executes the real kernels on
// generated families and logs measured magnitudes (long double) and exact structural facts for the specification to judge.
#include "alloc_guard.h"
#include "vh.h"
#include "gen.h"
#include <Spectra/LinAlg/UpperHessenbergQR.h>
#include <Spectra/LinAlg/DoubleShiftQR.h>
#include <Spectra/LinAlg/TridiagEigen.h>
#include <Spectra/LinAlg/UpperHessenbergSchur.h>
#include <Spectra/LinAlg/UpperHessenbergEigen.h>

using namespace vh;
using namespace Spectra;

template <typename T>
static MatL toL(const Eigen::Matrix<T, Eigen::Dynamic, Eigen::Dynamic>& m)
{
    return m.template cast<LD>();
}

// ---- matrix families (Hessenberg / tridiagonal) -----------------------------------------------------------------
// kind: rand | integer (exact zeros) | graded | deflated (zero subdiagonal entries) | tiny (entries near the near_0 / overflow
//       thresholds) | ratio (pivot/subdiagonal ratios in the Taylor branch window of the stable Givens computation) | perm (generalized
//       permutation: every rotation is trivial, all arithmetic exact) | jordan | companion | zero | repeated
static MatL gen_hess(const std::string& kind, int n, Rng& r, bool tridiag)
{
    MatL H = MatL::Zero(n, n);
    auto fill = [&](LD scale_i, LD scale_j) { return r.sym() * scale_i * scale_j; };
    if (kind == "perm")
    {
        // weighted cyclic-shift Hessenberg matrix: subdiagonal weights and one corner entry; integers => exact arithmetic
        for (int i = 0; i + 1 < n; i++)
            H(i + 1, i) = (LD)(1 + r.below(3)) * (r.below(2) ? 1 : -1);
        H(0, n - 1) = (LD)(1 + r.below(3));
        if (tridiag)
        {
            H.setZero();
            for (int i = 0; i < n; i++)
                H(i, i) = (LD)(r.below(5) - 2);   // diagonal integer matrix: tridiagonal, every rotation trivial
        }
        return H;
    }
    for (int j = 0; j < n; j++)
        for (int i = 0; i <= std::min(j + 1, n - 1); i++)
        {
            LD v;
            if (kind == "integer")
                v = (LD)(r.below(7) - 3);
            else if (kind == "graded")
                v = fill(std::pow(2.0L, -(LD) i * 50.0L / (LD) n), std::pow(2.0L, -(LD) j * 3.0L / (LD) n));
            else if (kind == "zero")
                v = 0;
            else if (kind == "jordan")
                v = (i == j) ? 2.0L : ((i == j + 1) ? 0.0L : ((j == i + 1) ? 1.0L : 0.0L));
            else if (kind == "repeated")
                v = (i == j) ? (LD)(1 + (i / 3)) : ((i == j + 1 && i % 3 != 0) ? 0.0L : (i < j ? 0.3L * r.sym() : 0.0L));
            else
                v = r.sym();
            H(i, j) = v;
        }
    if (kind == "deflated")
        for (int i = 1; i < n; i++)
            if (r.below(3) == 0)
                H(i, i - 1) = 0;
    if (kind == "tiny")
    {
        LD s = r.below(2) ? 1e-100L : 1e100L;
        H *= s;
    }
    if (kind == "ratio")
    {
        // subdiagonal entries 1e-5 .. 1e-8 times the pivots: the Taylor-series branch of the stable Givens rotation
        for (int i = 1; i < n; i++)
        {
            H(i - 1, i - 1) = 1.0L + r.uni();
            H(i, i - 1) = std::pow(10.0L, -5.0L - 3.0L * r.uni()) * (r.below(2) ? 1 : -1);
        }
    }
    if (kind == "defective")
    {
        // 2x2 diagonal blocks with an exactly zero discriminant (repeated, defective real eigenvalue) in integer data:
        // [2 1; -1 0] (eigenvalue 1 twice) and the lower Jordan block [1 0; 1 1]; blocks isolated by exact zero subdiagonals
        H.setZero();
        for (int i = 0; i + 1 < n; i += 2)
        {
            if (r.below(2))
            {
                H(i, i) = 2; H(i, i + 1) = 1; H(i + 1, i) = -1; H(i + 1, i + 1) = 0;
            }
            else
            {
                H(i, i) = 1; H(i, i + 1) = 0; H(i + 1, i) = 1; H(i + 1, i + 1) = 1;
            }
            for (int j = i + 2; j < n; j++)
            {
                H(i, j) = (LD)(r.below(3) - 1);
                H(i + 1, j) = (LD)(r.below(3) - 1);
            }
        }
        if (n % 2)
            H(n - 1, n - 1) = 3;
    }
    if (kind == "negdiag")
    {
        // diagonal matrix with non-positive entries (all sub-diagonals exactly zero): scaling decisions must use magnitudes
        H.setZero();
        for (int i = 0; i < n; i++)
            H(i, i) = -(LD) r.below(4) - (r.below(2) ? 0.5L : 0.0L);
        if (H.norm() == 0)
            H(0, 0) = -1;
    }
    if (kind == "subdiag")
    {
        // ONLY the first subdiagonal is non-zero (weighted shift; the companion matrix of x^n when all weights are 1): upper
        // triangle and diagonal exactly zero, so any norm estimate that leaves the subdiagonal out sees the zero matrix
        H.setZero();
        const bool ints = r.below(2) == 0;
        for (int i = 1; i < n; i++)
            H(i, i - 1) = ints ? (LD)(1 + r.below(3)) : (0.5L + r.uni());
    }
    if (kind == "eqreal")
    {
        // block upper triangular, 2x2 diagonal blocks [a -b; b a] with the SAME real part a and different b (complex pairs with
        // bit-identical real parts), exact zeros below the blocks, small integers above
        H.setZero();
        const LD a = (LD)(r.below(5) - 2);
        for (int i = 0; i + 1 < n; i += 2)
        {
            const LD b = (LD)(1 + (i / 2) % 4);
            H(i, i) = a; H(i, i + 1) = -b; H(i + 1, i) = b; H(i + 1, i + 1) = a;
            for (int j = i + 2; j < n; j++)
            {
                H(i, j) = (LD)(r.below(3) - 1);
                H(i + 1, j) = (LD)(r.below(3) - 1);
            }
        }
        if (n % 2)
            H(n - 1, n - 1) = a + 1;
    }
    if (kind == "stall30")
    {
        // [B4 X; 0 R]: the Francis iteration stalls for 30 sweeps on the leading integer block B4 (the second exceptional shift is taken)
        // while the trailing triangular block has already deflated
        H.setZero();
        const int B4[4][4] = {{1, -2, -1, 1}, {-2, -1, -2, -1}, {0, 1, 1, 1}, {0, 0, 2, 0}};
        for (int i = 0; i < std::min(n, 4); i++)
            for (int j = 0; j < std::min(n, 4); j++)
                H(i, j) = (LD) B4[i][j];
        for (int i = 0; i < n; i++)
            for (int j = std::max(i, 4); j < n; j++)
                H(i, j) = (i == j) ? (LD)(2 + (i % 5)) * (i % 2 ? -1.0L : 1.0L) : (LD)(r.below(3) - 1);
    }
    if (kind == "xscale")
    {
        // entries beyond sqrt(min) / sqrt(max) of the scalar type: norms must not be formed from squares (handled by the callers, which
        // scale by a type dependent factor; here only the pattern: an order-one Hessenberg matrix)
        for (int j = 0; j < n; j++)
            for (int i = 0; i <= std::min(j + 1, n - 1); i++)
                H(i, j) = r.sym() + (i == j ? 1.5L : 0.0L);
    }
    if (kind == "companion")
    {
        H.setZero();
        for (int j = 0; j < n; j++)
            H(0, j) = r.sym() * 2.0L;
        for (int i = 1; i < n; i++)
            H(i, i - 1) = 1;
    }
    if (tridiag)
    {
        MatL T = MatL::Zero(n, n);
        for (int i = 0; i < n; i++)
        {
            T(i, i) = H(i, i);
            if (i + 1 < n)
                T(i + 1, i) = T(i, i + 1) = H(i + 1, i);
        }
        return T;
    }
    return H;
}

static const int NKINDS = 17;
static const char* KINDS[NKINDS] = {"rand", "integer", "graded", "deflated", "tiny", "ratio", "perm", "jordan", "companion", "zero", "repeated", "defective", "negdiag", "subdiag", "eqreal", "stall30", "xscale"};

// ---- C08 ----------------------------------------------------------------------------------------------------------
template <typename T, typename QR>
static void qr_case(const char* cls, const std::string& kind, const MatL& HL0, LD shiftL, int tycode, bool tridiag, int shiftkind)
{
    typedef Eigen::Matrix<T, Eigen::Dynamic, Eigen::Dynamic> Mat;
    typedef Eigen::Matrix<T, Eigen::Dynamic, 1> Vec;
    const int n = (int) HL0.rows();
    Mat H = HL0.cast<T>();
    const T s = (T) shiftL;
    MatL HL = toL<T>(H);
    Line l("Qr");
    l.str("cls", cls).str("kind", kind).i("ty", tycode).i("n", n).i("qn", q((LD) n)).i("sk", shiftkind);
    QR qr(n);
    // protocol: accessors before compute() throw logic_error
    int pre = 0;
    try
    {
        Mat R0 = qr.matrix_R();
    }
    catch (const std::logic_error&)
    {
        pre = 1;
    }
    catch (...)
    {
        pre = 2;
    }
    l.i("pre", pre);
    qr.compute(H, s);
    Mat R = qr.matrix_R();
    Mat Q = Mat::Identity(n, n);
    qr.apply_YQ(Q);                       // Q = I * Q
    // the destination already has the right size and holds unrelated data (a workspace used before): its old content must not matter
    Mat QtHQ = Mat::Constant(n, n, T(7.25));
    qr.matrix_QtHQ(QtHQ);
    MatL QL = toL<T>(Q), RL = toL<T>(R), SL = HL - (LD) s * MatL::Identity(n, n);
    const LD scale = HL.norm() + std::fabs((LD) s);
    l.i("qscale", q(scale));
    l.i("qQQ", q((QL.transpose() * QL - MatL::Identity(n, n)).norm()));
    l.i("qQR", q((QL * RL - SL).norm()));
    l.i("qSim", q((toL<T>(QtHQ) - QL.transpose() * HL * QL).norm()));
    // structure: R upper triangular exactly; QtHQ upper Hessenberg exactly (tridiagonal and symmetric exactly for TridiagQR)
    int rtri = 1, hess = 1, tri = 1;
    for (int i = 0; i < n; i++)
        for (int j = 0; j < n; j++)
        {
            if (i > j && R(i, j) != T(0))
                rtri = 0;
            if (i > j + 1 && QtHQ(i, j) != T(0))
                hess = 0;
            if (tridiag && ((i > j + 1 || j > i + 1) ? QtHQ(i, j) != T(0) : QtHQ(i, j) != QtHQ(j, i)))
                tri = 0;
        }
    l.i("rtri", rtri).i("hess", hess).i("tri", tri);
    // the apply methods against explicit products
    Rng r(1234 + n);
    Mat Y(n, 3);
    for (int i = 0; i < n; i++)
        for (int j = 0; j < 3; j++)
            Y(i, j) = (T) r.sym();
    MatL YL = toL<T>(Y);
    Mat A1 = Y, A2 = Y, A3 = Y.transpose(), A4 = Y.transpose();
    qr.apply_QY(A1);
    qr.apply_QtY(A2);
    qr.apply_YQ(A3);
    qr.apply_YQt(A4);
    LD ap = 0;
    ap = std::max(ap, (toL<T>(A1) - QL * YL).norm());
    ap = std::max(ap, (toL<T>(A2) - QL.transpose() * YL).norm());
    ap = std::max(ap, (toL<T>(A3) - YL.transpose() * QL).norm());
    ap = std::max(ap, (toL<T>(A4) - YL.transpose() * QL.transpose()).norm());
    Vec y1 = Y.col(0), y2 = Y.col(0);
    qr.apply_QY(y1);
    qr.apply_QtY(y2);
    ap = std::max(ap, (y1.template cast<LD>() - QL * YL.col(0)).norm());
    ap = std::max(ap, (y2.template cast<LD>() - QL.transpose() * YL.col(0)).norm());
    l.i("qApply", q(ap / std::max((LD) 1e-300L, YL.norm())));
    l.i("fin", (all_finite(Q) && all_finite(R) && all_finite(QtHQ)) ? 1 : 0);
    out().put(l);
}

template <typename T>
static void ds_case(const std::string& kind, const MatL& HL0, LD sL, LD tL, int tycode, int shiftkind)
{
    typedef Eigen::Matrix<T, Eigen::Dynamic, Eigen::Dynamic> Mat;
    typedef Eigen::Matrix<T, Eigen::Dynamic, 1> Vec;
    const int n = (int) HL0.rows();
    Mat H = HL0.cast<T>();
    const T s = (T) sL, t = (T) tL;
    MatL HL = toL<T>(H);
    Line l("Qr");
    l.str("cls", "ds").str("kind", kind).i("ty", tycode).i("n", n).i("qn", q((LD) n)).i("sk", shiftkind);
    DoubleShiftQR<T> qr(n);
    int pre = 0;
    try
    {
        Mat D(n, n);
        qr.matrix_QtHQ(D);
    }
    catch (const std::logic_error&)
    {
        pre = 1;
    }
    catch (...)
    {
        pre = 2;
    }
    l.i("pre", pre);
    qr.compute(H, s, t);
    Mat Q = Mat::Identity(n, n);
    qr.apply_YQ(Q);
    Mat QtHQ = Mat::Constant(n, n, T(7.25));   // pre-sized destination with unrelated content
    qr.matrix_QtHQ(QtHQ);
    MatL QL = toL<T>(Q);
    const LD scale = HL.norm() + std::fabs((LD) s) + std::sqrt(std::fabs((LD) t));
    l.i("qscale", q(scale));
    l.i("qQQ", q((QL.transpose() * QL - MatL::Identity(n, n)).norm()));
    l.i("qQR", QZERO);
    l.i("qSim", q((toL<T>(QtHQ) - QL.transpose() * HL * QL).norm()));
    int hess = 1;
    LD low = 0;
    for (int i = 0; i < n; i++)
        for (int j = 0; j < n; j++)
            if (i > j + 1)
            {
                if (QtHQ(i, j) != T(0))
                    hess = 0;
                low = std::max(low, (LD) std::fabs((LD) QtHQ(i, j)));
            }
    l.i("rtri", 1).i("hess", hess).i("tri", 1).i("qLow", q(low));
    // first column of Q parallel to (H^2 - s H + t I) e1
    MatL M = HL * HL - (LD) s * HL + (LD) t * MatL::Identity(n, n);
    VecL m1 = M.col(0), q1 = QL.col(0);
    LD nm = m1.norm();
    LD par = nm > 0 ? (m1 / nm - q1 * (q1.dot(m1 / nm))).norm() : 0;   // component of the normalised first column orthogonal to Q e1
    l.i("qFirst", nm > 0 ? q(par) : QZERO).i("qM1", q(nm / std::max((LD) 1e-4000L, scale * scale)));
    Vec y = Vec::LinSpaced(n, T(1), T(2)), y0 = y;
    qr.apply_QtY(y);
    l.i("qApply", q((y.template cast<LD>() - QL.transpose() * y0.template cast<LD>()).norm() / (LD) y0.template cast<LD>().norm()));
    l.i("fin", (all_finite(Q) && all_finite(QtHQ)) ? 1 : 0);
    out().put(l);
}

template <typename T>
static void qr_type(const Desc& d, int tycode)
{
    Rng r((uint64_t) d.i("seed", 1) * 313 + tycode);
    const int count = (int) d.i("count", 150);
    const int nmax = (int) d.i("nmax", 40);
    for (int c = 0; c < count; c++)
    {
        const std::string kind = KINDS[c % NKINDS];
        int n = 2 + r.below(nmax - 1);
        if (c % 7 == 0)
            n = 2 + r.below(4);
        if (kind == "tiny" && tycode == 1)
            continue;   // 1e-150 / 1e120 are outside the range of float
        // xscale: all entries beyond sqrt(min) (even cases) or sqrt(max) (odd cases) of T; the long double reference has no headroom
        // left for T = long double, which is skipped
        LD xs = 1;
        if (kind == "xscale")
        {
            if (tycode == 3)
                continue;
            xs = ((c / NKINDS) % 2 == 0) ? std::sqrt((LD) std::numeric_limits<T>::min()) * 1e-6L : std::sqrt((LD) std::numeric_limits<T>::max()) * 1e3L;
            n = std::min(n, 12);
        }
        // shifts: 0, random, an exact eigenvalue of H (the only shifts the solvers ever use), huge
        for (int sk = 0; sk < 3; sk++)
        {
            {
                MatL H = gen_hess(kind, n, r, false) * xs;
                LD s = 0;
                if (sk == 1)
                    s = r.sym() * (H.norm() > 0 ? H.norm() : 1.0L);
                if (sk == 2)
                {
                    Eigen::EigenSolver<MatL> es(H, false);
                    s = es.eigenvalues()[r.below(n)].real();
                }
                qr_case<T, UpperHessenbergQR<T> >("hess", kind, H, s, tycode, false, sk);
                if (n >= 3)
                {
                    // double shift (s, t) = (2 Re mu, |mu|^2) for an eigenvalue mu of H, or arbitrary
                    LD ss = r.sym() * xs, tt = r.uni() * xs * xs;
                    if (sk == 2)
                    {
                        Eigen::EigenSolver<MatL> es(H, false);
                        CLD mu = es.eigenvalues()[r.below(n)];
                        ss = 2 * mu.real();
                        tt = std::norm(mu);
                    }
                    if (sk == 0)
                    {
                        ss = (LD) ((T) H(0, 0) + (T) H(1, 1));   // s = H00 + H11: exact zero in the first reflector
                        tt = (LD) ((T) H(0, 0) * (T) H(1, 1) - (T) H(0, 1) * (T) H(1, 0));
                    }
                    if (kind == "xscale")
                    {
                        // the double shift forms (H^2 - s H + t I) e1, whose entries are products of entries of H: beyond sqrt(min) / sqrt(max)
                        // that vector itself is not representable, so the double-shift class gets the two patterns in which every quantity it
                        // has to form IS representable and only the NORM of a reflector needs care: a tiny H with the shift pair (2, 0), and an
                        // order-one H whose last row and column are huge (they are touched by the last, two-row reflector only)
                        MatL H2 = H / xs;
                        if (xs < 1)
                        {
                            ss = 2;
                            tt = 0;
                            ds_case<T>(kind, H, ss, tt, tycode, sk);
                        }
                        else
                        {
                            for (int i = 0; i < n; i++)
                                H2(i, n - 1) *= xs;
                            H2(n - 1, n - 2) *= xs;
                            ds_case<T>(kind, H2, r.sym(), r.uni(), tycode, sk);
                        }
                    }
                    else
                        ds_case<T>(kind, H, ss, tt, tycode, sk);
                }
            }
            {
                MatL Tm = gen_hess(kind, n, r, true) * xs;
                LD s = 0;
                if (sk == 1)
                    s = r.sym() * (Tm.norm() > 0 ? Tm.norm() : 1.0L);
                if (sk == 2)
                {
                    Eigen::SelfAdjointEigenSolver<MatL> es(Tm, Eigen::EigenvaluesOnly);
                    s = es.eigenvalues()[r.below(n)];
                }
                qr_case<T, TridiagQR<T> >("tri", kind, Tm, s, tycode, true, sk);
            }
        }
    }
}

// ---- C09 ----------------------------------------------------------------------------------------------------------
template <typename T>
static void eig_type(const Desc& d, int tycode)
{
    typedef Eigen::Matrix<T, Eigen::Dynamic, Eigen::Dynamic> Mat;
    typedef std::complex<T> C;
    Rng r((uint64_t) d.i("seed", 1) * 733 + tycode);
    const int count = (int) d.i("count", 150);
    const int nmax = (int) d.i("nmax", 64);
    for (int c = 0; c < count; c++)
    {
        const std::string kind = KINDS[c % NKINDS];
        if (kind == "tiny" && tycode == 1)
            continue;
        if (kind == "xscale")
            continue;   // the eigen-decompositions are documented for scalings within 1e+-100 (DESIGN section 12)
        int n = 2 + r.below(nmax - 1);
        if (c % 5 == 0)
            n = 2 + r.below(5);
        // odd cases: the decomposition object has been used before for another matrix of the same size (a fresh one in even cases)
        const bool reuse = (c % 2) == 1;
        // ---- TridiagEigen
        {
            MatL TL = gen_hess(kind, n, r, true);
            Mat Tm = TL.cast<T>();
            MatL TT = toL<T>(Tm);
            Line l("Eig");
            l.str("cls", "trideig").str("kind", kind).i("ty", tycode).i("n", n).i("qn", q((LD) n));
            int thr = 0;
            try
            {
                TridiagEigen<T> te;
                if (reuse)
                {
                    Mat other = Tm;
                    for (int i = 0; i < n; i++)
                        other(i, i) += T(1 + i % 3);
                    te.compute(other);
                }
                te.compute(Tm);
                MatL Z = toL<T>(Mat(te.eigenvectors()));
                VecL dv = te.eigenvalues().template cast<LD>();
                l.i("qscale", q(TT.norm())).i("qRes", q((TT * Z - Z * dv.asDiagonal()).norm())).i("qOrth", q((Z.transpose() * Z - MatL::Identity(n, n)).norm()));
                l.i("fin", (all_finite(Z) && all_finite(dv)) ? 1 : 0);
            }
            catch (const std::runtime_error&)
            {
                thr = 1;
            }
            catch (...)
            {
                thr = 2;
            }
            l.i("thr", thr);
            out().put(l);
        }
        // ---- Schur and Hessenberg eigen
        {
            MatL HL = gen_hess(kind, n, r, false);
            Mat H = HL.cast<T>();
            MatL HH = toL<T>(H);
            {
                Line l("Eig");
                l.str("cls", "schur").str("kind", kind).i("ty", tycode).i("n", n).i("qn", q((LD) n));
                int thr = 0;
                try
                {
                    UpperHessenbergSchur<T> sc;
                    if (reuse)
                    {
                        Mat other = H;
                        for (int i = 0; i < n; i++)
                            other(i, i) += T(1 + i % 3);
                        try { sc.compute(other); } catch (...) {}
                    }
                    sc.compute(H);
                    MatL U = toL<T>(Mat(sc.matrix_U())), Tm = toL<T>(Mat(sc.matrix_T()));
                    l.i("qscale", q(HH.norm())).i("qRes", q((U * Tm * U.transpose() - HH).norm())).i("qOrth", q((U.transpose() * U - MatL::Identity(n, n)).norm()));
                    // quasi upper triangular: exact zeros below the first subdiagonal, no two consecutive nonzero subdiagonal entries
                    int quasi = 1;
                    for (int i = 0; i < n; i++)
                        for (int j = 0; j < n; j++)
                            if (i > j + 1 && Tm(i, j) != 0)
                                quasi = 0;
                    for (int i = 2; i < n; i++)
                        if (Tm(i, i - 1) != 0 && Tm(i - 1, i - 2) != 0)
                            quasi = 0;
                    // every 2x2 block left on the diagonal has complex eigenvalues (real ones must have been split)
                    int std2 = 1;
                    for (int i = 1; i < n; i++)
                        if (Tm(i, i - 1) != 0)
                        {
                            LD a = Tm(i - 1, i - 1), b = Tm(i - 1, i), cc = Tm(i, i - 1), dd = Tm(i, i);
                            LD disc = (a - dd) * (a - dd) / 4 + b * cc;
                            if (disc >= 0)
                                std2 = 0;
                        }
                    l.i("quasi", quasi).i("std2", std2).i("fin", (all_finite(U) && all_finite(Tm)) ? 1 : 0);
                }
                catch (const std::runtime_error&)
                {
                    thr = 1;
                }
                catch (...)
                {
                    thr = 2;
                }
                l.i("thr", thr);
                out().put(l);
            }
            {
                Line l("Eig");
                l.str("cls", "hesseig").str("kind", kind).i("ty", tycode).i("n", n).i("qn", q((LD) n));
                int thr = 0;
                try
                {
                    UpperHessenbergEigen<T> he;
                    if (reuse)
                    {
                        Mat other = H;
                        for (int i = 0; i < n; i++)
                            other(i, i) += T(1 + i % 3);
                        try { he.compute(other); } catch (...) {}
                    }
                    he.compute(H);
                    Eigen::Matrix<C, Eigen::Dynamic, 1> ev = he.eigenvalues();
                    Eigen::Matrix<C, Eigen::Dynamic, Eigen::Dynamic> X = he.eigenvectors();
                    CMatL XL = X.template cast<CLD>();
                    CMatL HC = HH.cast<CLD>();
                    LD res = 0, nrm = 0;
                    for (int i = 0; i < n; i++)
                    {
                        CLD lam((LD) ev[i].real(), (LD) ev[i].imag());
                        res = std::max(res, (HC * XL.col(i) - lam * XL.col(i)).norm());
                        nrm = std::max(nrm, std::fabs(XL.col(i).norm() - 1.0L));
                    }
                    // conventions the restart logic relies on: real eigenvalues have imaginary part exactly 0; complex ones come as
                    // adjacent exact conjugates, positive imaginary part first
                    int conv = 1;
                    for (int i = 0; i < n; i++)
                    {
                        if (ev[i].imag() == T(0))
                            continue;
                        if (ev[i].imag() > T(0))
                        {
                            if (i + 1 >= n || ev[i + 1].real() != ev[i].real() || ev[i + 1].imag() != -ev[i].imag())
                                conv = 0;
                            i++;
                        }
                        else
                            conv = 0;   // a negative imaginary part that does not follow its positive partner
                    }
                    l.i("qscale", q(HH.norm())).i("qRes", q(res)).i("qOrth", q(nrm)).i("conv", conv).i("fin", (all_finite(X) && all_finite(ev)) ? 1 : 0);
                }
                catch (const std::runtime_error&)
                {
                    thr = 1;
                }
                catch (...)
                {
                    thr = 2;
                }
                l.i("thr", thr);
                out().put(l);
            }
        }
    }
}

template <typename T>
void dispatch(const Desc& d)
{
    {
        Line l("Reset");
        l.str("desc", d.raw);
        out().put(l);
    }
    const std::string mode = d.s("mode");
    const std::string ty = d.s("kty", "d");
    if (mode == "qr")
    {
        if (ty == "f")
            qr_type<float>(d, 1);
        else if (ty == "l")
            qr_type<long double>(d, 3);
        else
            qr_type<double>(d, 2);
    }
    else if (mode == "eig")
    {
        if (ty == "f")
            eig_type<float>(d, 1);
        else if (ty == "l")
            eig_type<long double>(d, 3);
        else
            eig_type<double>(d, 2);
    }
    else
        exit(3);
    Line e("EndKernels");
    out().put(e);
}
#define VH_ONLY 2
#include "drv_main.h"
