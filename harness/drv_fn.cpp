// Driver for the finite-domain pure functions: exhaustive tables that TLC checks against the specification.
//   mode=sort    C18  argsort / SortEigenvalue on the whole alphabet domain
//   mode=rng     C19  Park-Miller generator: cycle walk with checkpoints, sampled transitions, draws, seed purity
//   mode=nevadj  C13  the real nev_adjusted() (friend access, injected Ritz values / estimates)
// Index assertions of Eigen are turned into exceptions so that an out-of-range read is a table row, not a crash.
#include <stdexcept>
#include <string>
namespace vh {
struct EigenAssert : public std::runtime_error
{
    explicit EigenAssert(const char* w) : std::runtime_error(w) {}
};
}  // namespace vh
#define eigen_assert(x)                \
    do                                 \
    {                                  \
        if (!(x))                      \
            throw vh::EigenAssert(#x); \
    } while (0)

#include "ir_run.h"
#include <Spectra/SymEigsSolver.h>
#include <Spectra/GenEigsSolver.h>
#include <Spectra/HermEigsSolver.h>
#include <Spectra/MatOp/DenseSymMatProd.h>
#include <Spectra/MatOp/DenseGenMatProd.h>
#include <Spectra/Util/SimpleRandom.h>
#include <thread>

using namespace vh;
using namespace Spectra;

// ------------------------------------------------------------------------------------------ C18
template <typename T, SortRule R>
static void sort_tmpl_row(const std::vector<T>& v, Line& l)
{
    try
    {
        SortEigenvalue<T, R> s(v.data(), (Eigen::Index) v.size());
        std::vector<Eigen::Index> ind = s.index();
        std::vector<ll> r(ind.begin(), ind.end());
        l.arr("res", r).i("thr", 0);
    }
    catch (const std::invalid_argument&)
    {
        l.arr("res", std::vector<ll>()).i("thr", 1);
    }
    catch (const std::exception&)
    {
        l.arr("res", std::vector<ll>()).i("thr", 2);
    }
}

// complex values: LargestAlge / SmallestAlge / BothEnds do not compile for std::complex (the key would be complex and
// has no operator<), i.e. they are rejected at compile time; only the six complex rules are instantiated
static void sort_tmpl_c(int rule, const std::vector<std::complex<double> >& v, Line& l)
{
    typedef std::complex<double> T;
    switch (rule)
    {
        case 0: sort_tmpl_row<T, SortRule::LargestMagn>(v, l); break;
        case 1: sort_tmpl_row<T, SortRule::LargestReal>(v, l); break;
        case 2: sort_tmpl_row<T, SortRule::LargestImag>(v, l); break;
        case 4: sort_tmpl_row<T, SortRule::SmallestMagn>(v, l); break;
        case 5: sort_tmpl_row<T, SortRule::SmallestReal>(v, l); break;
        case 6: sort_tmpl_row<T, SortRule::SmallestImag>(v, l); break;
        default: l.arr("res", std::vector<ll>()).i("thr", 9); break;
    }
}

template <typename T>
static void sort_tmpl(int rule, const std::vector<T>& v, Line& l)
{
    switch (rule)
    {
        case 0: sort_tmpl_row<T, SortRule::LargestMagn>(v, l); break;
        case 1: sort_tmpl_row<T, SortRule::LargestReal>(v, l); break;
        case 2: sort_tmpl_row<T, SortRule::LargestImag>(v, l); break;
        case 3: sort_tmpl_row<T, SortRule::LargestAlge>(v, l); break;
        case 4: sort_tmpl_row<T, SortRule::SmallestMagn>(v, l); break;
        case 5: sort_tmpl_row<T, SortRule::SmallestReal>(v, l); break;
        case 6: sort_tmpl_row<T, SortRule::SmallestImag>(v, l); break;
        case 7: sort_tmpl_row<T, SortRule::SmallestAlge>(v, l); break;
        default: sort_tmpl_row<T, SortRule::BothEnds>(v, l); break;
    }
}

static void argsort_row(int rule, const std::vector<double>& v, Line& l)
{
    Eigen::VectorXd x(v.size());
    for (size_t i = 0; i < v.size(); i++)
        x[i] = v[i];
    try
    {
        std::vector<Eigen::Index> ind = argsort((SortRule) rule, x);
        std::vector<ll> r(ind.begin(), ind.end());
        l.arr("res", r).i("thr", 0);
    }
    catch (const std::invalid_argument&)
    {
        l.arr("res", std::vector<ll>()).i("thr", 1);
    }
    catch (const std::exception&)
    {
        l.arr("res", std::vector<ll>()).i("thr", 2);
    }
}

// part/parts: this process handles vectors whose ordinal % parts == part
static void mode_sort(const Desc& d)
{
    const int part = (int) d.i("part", 0), parts = (int) d.i("parts", 1);
    const int maxlen_full = (int) d.i("lenfull", 6), maxlen_small = (int) d.i("lensmall", 7);
    const int cmaxlen_full = (int) d.i("clenfull", 5), cmaxlen_small = (int) d.i("clensmall", 7);
    ll ord = 0;
    // real alphabets
    const int A1[5] = {-2, -1, 0, 1, 2};
    const int A2[4] = {-1, 0, 1, 2};
    for (int len = 0; len <= maxlen_small; len++)
    {
        const int* A = len <= maxlen_full ? A1 : A2;
        const int na = len <= maxlen_full ? 5 : 4;
        ll total = 1;
        for (int i = 0; i < len; i++)
            total *= na;
        for (ll code = 0; code < total; code++, ord++)
        {
            if (ord % parts != part)
                continue;
            std::vector<double> v(len);
            std::vector<ll> vi(len);
            ll c = code;
            for (int i = 0; i < len; i++)
            {
                vi[i] = A[c % na];
                v[i] = (double) vi[i];
                c /= na;
            }
            for (int rule = 0; rule < 9; rule++)
            {
                {
                    Line l("Sort");
                    l.str("fn", "argsort").i("cx", 0).i("rule", rule).arr("re", vi);
                    argsort_row(rule, v, l);
                    out().put(l);
                }
                {
                    Line l("Sort");
                    l.str("fn", "tmpl").i("cx", 0).i("rule", rule).arr("re", vi);
                    sort_tmpl<double>(rule, v, l);
                    out().put(l);
                }
            }
        }
    }
    // complex alphabets
    const int C1[8][2] = {{0, 0}, {1, 0}, {-1, 0}, {0, 1}, {0, -1}, {1, 1}, {1, -1}, {2, 0}};
    const int C2[4][2] = {{1, 0}, {-1, 0}, {1, 1}, {1, -1}};
    for (int len = 0; len <= cmaxlen_small; len++)
    {
        const bool full = len <= cmaxlen_full;
        const int na = full ? 8 : 4;
        ll total = 1;
        for (int i = 0; i < len; i++)
            total *= na;
        for (ll code = 0; code < total; code++, ord++)
        {
            if (ord % parts != part)
                continue;
            std::vector<std::complex<double> > v(len);
            std::vector<ll> re(len), im(len);
            ll c = code;
            for (int i = 0; i < len; i++)
            {
                const int* z = full ? C1[c % na] : C2[c % na];
                re[i] = z[0];
                im[i] = z[1];
                v[i] = std::complex<double>(z[0], z[1]);
                c /= na;
            }
            for (int rule = 0; rule < 9; rule++)
            {
                Line l("Sort");
                l.str("fn", "tmpl").i("cx", 1).i("rule", rule).arr("re", re).arr("im", im);
                sort_tmpl_c(rule, v, l);
                out().put(l);
            }
        }
    }
    // random long vectors with forced ties (values are small integers so that the keys are exact in the spec)
    Rng r((uint64_t) d.i("seed", 1) * 31 + part);
    const int nlong = (int) d.i("nlong", 40);
    for (int t = 0; t < nlong; t++)
    {
        int len = 8 + r.below(120);
        std::vector<double> v(len);
        std::vector<ll> vi(len);
        std::vector<std::complex<double> > vc(len);
        std::vector<ll> re(len), im(len);
        for (int i = 0; i < len; i++)
        {
            vi[i] = r.below(41) - 20;
            v[i] = (double) vi[i];
            re[i] = r.below(15) - 7;
            im[i] = r.below(15) - 7;
            vc[i] = std::complex<double>((double) re[i], (double) im[i]);
        }
        for (int rule = 0; rule < 9; rule++)
        {
            {
                Line l("Sort");
                l.str("fn", "argsort").i("cx", 0).i("rule", rule).arr("re", vi);
                argsort_row(rule, v, l);
                out().put(l);
            }
            {
                Line l("Sort");
                l.str("fn", "tmpl").i("cx", 1).i("rule", rule).arr("re", re).arr("im", im);
                sort_tmpl_c(rule, vc, l);
                out().put(l);
            }
        }
    }
    Line e("EndSort");
    e.i("part", part).i("parts", parts).i("ord", ord);
    out().put(e);
}

// Call-site purity (C19): the start vector of a default init() is the Park-Miller stream of seed 0, for the first
// object, for a second object of the same type, and for a repeated init() on the same object.
template <typename S>
struct RecOp
{
    typedef S Scalar;
    int n;
    mutable std::vector<std::vector<S> > seen;
    mutable bool rec;
    explicit RecOp(int n_) : n(n_), rec(false) {}
    Eigen::Index rows() const { return n; }
    Eigen::Index cols() const { return n; }
    void perform_op(const S* x, S* y) const
    {
        if (rec)
        {
            seen.push_back(std::vector<S>(x, x + n));
            rec = false;
        }
        for (int i = 0; i < n; i++)
            y[i] = x[i] * S((double) (i + 1));
    }
};
inline void push_w(std::vector<ll>& w, double v) { w.push_back((ll) std::floor(((LD) v + 0.5L) * 16777216.0L)); }
inline void push_w(std::vector<ll>& w, const std::complex<double>& v)
{
    push_w(w, v.real());
    push_w(w, v.imag());
}
template <typename Solver, typename S>
static void initvec_rows(const char* cls)
{
    const int n = 12;
    RecOp<S> op(n);
    for (int obj = 0; obj < 2; obj++)
    {
        Solver eigs(op, 2, 6);
        for (int rep = 0; rep < 2; rep++)
        {
            op.rec = true;
            eigs.init();
            std::vector<ll> w;
            if (!op.seen.empty())
                for (int i = 0; i < n; i++)
                    push_w(w, op.seen.back()[i]);
            Line l("InitVec");
            l.str("cls", cls).i("obj", obj).i("rep", rep).arr("w", w);
            out().put(l);
        }
    }
}

// ------------------------------------------------------------------------------------------ C19
static const ll PM_M = 2147483647LL;

template <typename T>
static void draw_rows(const std::vector<long>& seeds, int tycode)
{
    for (size_t i = 0; i < seeds.size(); i++)
    {
        SimpleRandom<T> rng((unsigned long) seeds[i]);
        T x = rng.random();
        // floor((draw + 0.5) * 2^24), range bit
        LD v = (LD) x;
        Line l("Draw");
        l.i("ty", tycode).i("seed", (ll) seeds[i]).i("w", (ll) std::floor((v + 0.5L) * 16777216.0L)).i("inrange", (v >= -0.5L && v <= 0.5L) ? 1 : 0);
        out().put(l);
    }
}

static void mode_rng(const Desc& d)
{
    // (a) cycle walk from state 1: every step compared with a 64-bit reference product; checkpoints every 2^cp steps
    const ll steps = d.i("steps", PM_M - 1);
    const int cpbits = (int) d.i("cpbits", 21);
    {
        long s = 1;
        ll bad = 0, fixed = 0;
        std::vector<ll> cps;
        cps.push_back(1);
        for (ll i = 1; i <= steps; i++)
        {
            long nx = next_long_rand(s);
            ll ref = (ll) ((16807ULL * (unsigned long long) s) % (unsigned long long) PM_M);
            if ((ll) nx != ref)
                bad++;
            if (nx <= 0 || nx >= PM_M)
                fixed++;
            s = nx;
            if ((i & ((1LL << cpbits) - 1)) == 0)
                cps.push_back((ll) s);
        }
        Line l("Walk");
        l.i("steps", steps % 1000000007LL).i("steps_hi", steps >> 20).i("steps_lo", steps & 0xFFFFF).i("cpbits", cpbits).i("bad", bad).i("degenerate", fixed).i("final", (ll) s);
        out().put(l);
        // checkpoints in chunks of 64
        for (size_t i = 0; i < cps.size(); i += 64)
        {
            std::vector<ll> part(cps.begin() + i, cps.begin() + std::min(cps.size(), i + 65));
            Line c("Checkpoints");
            c.i("first", (ll) i).i("cpbits", cpbits).arr("cp", part);
            out().put(c);
        }
    }
    // (b) sampled transitions validated directly against the specification's Next
    {
        Rng r((uint64_t) d.i("seed", 1) + 77);
        std::vector<ll> st;
        for (ll s = 1; s <= 300; s++)
            st.push_back(s);
        for (ll s = PM_M - 300; s < PM_M; s++)
            st.push_back(s);
        for (int k = 1; k <= 30; k++)
        {
            st.push_back((1LL << k) % PM_M ? (1LL << k) % PM_M : 1);
            st.push_back(((1LL << k) - 1) % PM_M ? ((1LL << k) - 1) % PM_M : 1);
            st.push_back(((1LL << k) + 1) % PM_M);
        }
        for (ll m = 1; m <= 40; m++)
        {
            st.push_back(127773LL * m % PM_M);
            st.push_back((127773LL * m + 1) % PM_M);
            st.push_back((127773LL * m - 1) % PM_M);
            st.push_back((65536LL * m) % PM_M);
            st.push_back((65536LL * m + 65535) % PM_M);
            st.push_back((32768LL * m - 1) % PM_M);
        }
        const int nsamp = (int) d.i("nsamp", 2000);
        for (int i = 0; i < nsamp; i++)
            st.push_back(1 + (ll) (r.next() % (uint64_t) (PM_M - 1)));
        for (size_t i = 0; i < st.size(); i += 200)
        {
            std::vector<ll> a, b;
            for (size_t j = i; j < st.size() && j < i + 200; j++)
            {
                if (st[j] <= 0)
                    continue;
                a.push_back(st[j]);
                b.push_back((ll) next_long_rand((long) st[j]));
            }
            Line l("Trans");
            l.arr("s", a).arr("n", b);
            out().put(l);
        }
    }
    // (c) seed normalisation for the library's seeds 0 and 2i + 123j: first state after construction is observed through
    //     the first draw; here: the state after one step, recovered exactly from a long double draw
    {
        std::vector<ll> seeds, firsts;
        const ll imax = d.i("imax", 1 << 12);
        for (ll j = 0; j < 5; j++)
            for (ll i = 0; i < imax; i += (i < 64 ? 1 : 37))
                seeds.push_back(2 * i + 123 * j);
        seeds.push_back(0);
        // the largest seeds the library can generate: 2 i + 123 j with i < 2^20, j < 5
        for (ll j = 0; j < 5; j++)
            seeds.push_back(2 * ((1LL << 20) - 1) + 123 * j);
        for (size_t i = 0; i < seeds.size(); i += 200)
        {
            std::vector<ll> a, b;
            for (size_t j = i; j < seeds.size() && j < i + 200; j++)
            {
                SimpleRandom<long double> rng((unsigned long) seeds[j]);
                long double x = rng.random();
                // x = state/M - 0.5  => state = round((x + 0.5) * M)   (exact in long double)
                ll stt = (ll) std::llround(((LD) x + 0.5L) * (LD) PM_M);
                a.push_back(seeds[j] % PM_M);      // seeds are logged modulo M together with the quotient
                b.push_back(stt);
            }
            std::vector<ll> qv;
            for (size_t j = i; j < seeds.size() && j < i + 200; j++)
                qv.push_back(seeds[j] / PM_M);
            Line l("Seeds");
            l.arr("r", a).arr("q", qv).arr("first", b);
            out().put(l);
        }
    }
    // (d) draws in [-0.5, 0.5] for every scalar type; quantised value against state*2^24/M
    {
        std::vector<long> seeds;
        Rng r(99);
        for (int i = 0; i < 300; i++)
            seeds.push_back(1 + (long) (r.next() % (uint64_t) (PM_M - 1)));
        seeds.push_back(1);
        seeds.push_back(PM_M - 1);
        seeds.push_back(PM_M - 2);
        seeds.push_back(127773);
        draw_rows<float>(seeds, 1);
        draw_rows<double>(seeds, 2);
        draw_rows<long double>(seeds, 3);
        // complex: two consecutive states, both components in range
        for (size_t i = 0; i < seeds.size(); i++)
        {
            SimpleRandom<std::complex<double> > rng((unsigned long) seeds[i]);
            std::complex<double> z = rng.random();
            SimpleRandom<double> r2((unsigned long) seeds[i]);
            double a = r2.random(), b = r2.random();
            Line l("CDraw");
            l.i("seed", (ll) seeds[i]).i("inrange", (z.real() >= -0.5 && z.real() <= 0.5 && z.imag() >= -0.5 && z.imag() <= 0.5) ? 1 : 0);
            l.i("twostates", (z.real() == a && z.imag() == b) ? 1 : 0);
            out().put(l);
        }
    }
    // (e) purity: equal seeds give identical streams in different threads / construction orders; random_vec consumes len states
    {
        const int len = 257;
        SimpleRandom<double> g1(12345);
        Eigen::VectorXd a = g1.random_vec(len);
        double after = g1.random();
        Eigen::VectorXd b(len);
        double after_b = 0;
        std::thread th([&]() {
            SimpleRandom<double> dummy(999);
            dummy.random_vec(100);
            SimpleRandom<double> g2(12345);
            b = g2.random_vec(len);
            after_b = g2.random();
        });
        th.join();
        // element-wise: len single draws from a third generator
        SimpleRandom<double> g3(12345);
        bool same_single = true;
        for (int i = 0; i < len; i++)
            if (g3.random() != a[i])
                same_single = false;
        Line l("Purity");
        l.i("same_stream", (a == b && after == after_b) ? 1 : 0).i("vec_is_len_draws", (same_single && g3.random() == after) ? 1 : 0);
        out().put(l);
    }
    initvec_rows<SymEigsSolver<RecOp<double> >, double>("sym");
    initvec_rows<GenEigsSolver<RecOp<double> >, double>("gen");
    initvec_rows<HermEigsSolver<RecOp<std::complex<double> > >, std::complex<double> >("herm");
    Line e("EndRng");
    out().put(e);
}

// ------------------------------------------------------------------------------------------ C13: nev_adjusted table
// tokens: 0 = real, 1 = complex with positive imaginary part of pair id, 2 = its conjugate
template <typename Base, typename Solver>
static void nevadj_rows_gen(int nev, int ncv, const std::vector<int>& tok, const std::vector<int>& pid, Solver& eigs)
{
    typedef std::complex<double> C;
    Base& b = static_cast<Base&>(eigs);
    auto& rv = Spectra::verif::Access::ritz_val_mut(b);
    auto& re = Spectra::verif::Access::ritz_est_mut(b);
    for (int i = 0; i < ncv; i++)
    {
        if (tok[i] == 0)
            rv[i] = C(1.0 + i, 0.0);
        else
            rv[i] = C(0.5 * pid[i], tok[i] == 1 ? 1.0 * pid[i] : -1.0 * pid[i]);
    }
    std::vector<ll> tk(tok.begin(), tok.end()), pd(pid.begin(), pid.end());
    for (int z = 0; z <= ncv - nev; z++)
    {
        // z zero estimates among the unwanted positions (the function only counts them): put them first
        for (int i = 0; i < ncv; i++)
            re[i] = C(0.3, 0.1);
        for (int i = 0; i < z; i++)
            re[nev + i] = C(0, 0);
        for (int nconv = 0; nconv <= nev; nconv++)
        {
            Line l("NevAdj");
            l.i("gen", 1).i("nev", nev).i("ncv", ncv).i("nconv", nconv).i("z", z).arr("tok", tk).arr("pid", pd);
            try
            {
                ll r = (ll) Spectra::verif::Access::call_nev_adjusted(b, (Eigen::Index) nconv);
                l.i("k", r).i("thr", 0);
            }
            catch (const EigenAssert&)
            {
                l.i("k", -1).i("thr", 1);
            }
            out().put(l);
        }
    }
}

static void mode_nevadj(const Desc& d)
{
    const int nfull = (int) d.i("nfull", 5);    // all arrangements over {R, P1, M1, P2, M2} up to this ncv
    const int nwell = (int) d.i("nwell", 14);   // well-formed arrangements (pairs adjacent) up to this ncv
    // ---- Gen
    for (int ncv = 3; ncv <= nwell; ncv++)
    {
        const int n = ncv + 2;
        Eigen::MatrixXd A = Eigen::MatrixXd::Identity(n, n);
        for (int i = 0; i < n; i++)
            A(i, i) = i + 1;
        DenseGenMatProd<double> op(A);
        for (int nev = 1; nev <= ncv - 2; nev++)
        {
            typedef GenEigsSolver<DenseGenMatProd<double> > Solver;
            typedef GenEigsBase<DenseGenMatProd<double>, IdentityBOp> Base;
            Solver eigs(op, nev, ncv);
            eigs.init();
            if (ncv <= nfull)
            {
                ll total = 1;
                for (int i = 0; i < ncv; i++)
                    total *= 5;
                for (ll code = 0; code < total; code++)
                {
                    std::vector<int> tok(ncv), pid(ncv);
                    ll c = code;
                    for (int i = 0; i < ncv; i++)
                    {
                        int t = (int) (c % 5);
                        c /= 5;
                        tok[i] = t == 0 ? 0 : (t % 2 == 1 ? 1 : 2);
                        pid[i] = t == 0 ? 0 : (t + 1) / 2;
                    }
                    nevadj_rows_gen<Base>(nev, ncv, tok, pid, eigs);
                }
            }
            else
            {
                // well-formed: tilings of 1..ncv by R (1) and PM (2); distinct pair ids
                std::vector<std::vector<int> > tilings(1);
                std::vector<std::vector<int> > done;
                std::vector<std::vector<int> > stack;
                stack.push_back(std::vector<int>());
                while (!stack.empty())
                {
                    std::vector<int> t = stack.back();
                    stack.pop_back();
                    if ((int) t.size() == ncv)
                    {
                        done.push_back(t);
                        continue;
                    }
                    std::vector<int> a = t;
                    a.push_back(0);
                    stack.push_back(a);
                    if ((int) t.size() + 2 <= ncv)
                    {
                        std::vector<int> b = t;
                        b.push_back(1);
                        b.push_back(2);
                        stack.push_back(b);
                    }
                }
                for (size_t q = 0; q < done.size(); q++)
                {
                    std::vector<int> pid(ncv, 0);
                    int id = 0;
                    for (int i = 0; i < ncv; i++)
                    {
                        if (done[q][i] == 1)
                            id++;
                        pid[i] = done[q][i] ? id : 0;
                    }
                    nevadj_rows_gen<Base>(nev, ncv, done[q], pid, eigs);
                }
            }
        }
    }
    // ---- Herm: the function depends on (nev, ncv, nconv, z) only
    for (int ncv = 2; ncv <= nwell; ncv++)
    {
        const int n = ncv + 1;
        Eigen::MatrixXd A = Eigen::MatrixXd::Identity(n, n);
        for (int i = 0; i < n; i++)
            A(i, i) = i + 1;
        DenseSymMatProd<double> op(A);
        for (int nev = 1; nev <= ncv - 1; nev++)
        {
            typedef SymEigsSolver<DenseSymMatProd<double> > Solver;
            typedef HermEigsBase<DenseSymMatProd<double>, IdentityBOp> Base;
            Solver eigs(op, nev, ncv);
            eigs.init();
            Base& b = static_cast<Base&>(eigs);
            auto& re = Spectra::verif::Access::ritz_est_mut(b);
            for (int z = 0; z <= ncv - nev; z++)
            {
                for (int i = 0; i < ncv; i++)
                    re[i] = 0.3;
                for (int i = 0; i < z; i++)
                    re[nev + i] = 0.0;
                for (int nconv = 0; nconv <= nev; nconv++)
                {
                    Line l("NevAdj");
                    l.i("gen", 0).i("nev", nev).i("ncv", ncv).i("nconv", nconv).i("z", z);
                    try
                    {
                        ll r = (ll) Spectra::verif::Access::call_nev_adjusted(b, (Eigen::Index) nconv);
                        l.i("k", r).i("thr", 0);
                    }
                    catch (const EigenAssert&)
                    {
                        l.i("k", -1).i("thr", 1);
                    }
                    out().put(l);
                }
            }
        }
    }
    Line e("EndNevAdj");
    e.i("nfull", nfull).i("nwell", nwell);
    out().put(e);
}

template <typename T>
void dispatch(const Desc& d)
{
    const std::string mode = d.s("mode");
    {
        Line l("Reset");
        l.str("desc", d.raw);
        out().put(l);
    }
    if (mode == "sort")
        mode_sort(d);
    else if (mode == "rng")
        mode_rng(d);
    else if (mode == "nevadj")
        mode_nevadj(d);
    else
    {
        fprintf(stderr, "drv_fn: unknown mode %s\n", mode.c_str());
        exit(3);
    }
}
#define VH_ONLY 2
#include "drv_main.h"
