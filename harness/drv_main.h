// shared main(): reads descriptors from stdin, dispatches on the scalar type
#ifndef VERIF_DRV_MAIN_H
#define VERIF_DRV_MAIN_H
#include "alloc_guard.h"
#include <iostream>
#include <csignal>
template <typename T> void dispatch(const vh::Desc& d);
int main(int argc, char** argv)
{
    std::set_terminate(vh::on_terminate);
    signal(SIGABRT, vh::on_signal);
    signal(SIGSEGV, vh::on_signal);
    signal(SIGFPE, vh::on_signal);
    signal(SIGBUS, vh::on_signal);
    signal(SIGILL, vh::on_signal);
    if (argc > 1)
    {
        vh::out().f = fopen(argv[1], "w");
        if (!vh::out().f)
            return 3;
    }
    std::string line;
    while (std::getline(std::cin, line))
    {
        if (line.empty() || line[0] == '#')
            continue;
        vh::g_heap_live = (long long) vh_heap_live;
        vh::g_heap_overruns_ptr = &vh_heap_overruns;
        vh::g_heap_ov0 = (long long) vh_heap_overruns;
        vh::Desc d = vh::Desc::parse(line);
        const std::string ty = d.s("ty", "d");
        // rep=K: execute the same descriptor K times in this process (leak observation: live heap blocks at the
        // start of the 2nd and 3rd execution must agree)
        const int rep = (int) d.i("rep", 1);
        for (int rr = 0; rr < rep; rr++)
        {
        vh::g_heap_live = (long long) vh_heap_live;
        vh::g_heap_ov0 = (long long) vh_heap_overruns;
        if (false) {}
#if !defined(VH_ONLY) || VH_ONLY == 1
        else if (ty == "f")
            dispatch<float>(d);
#endif
#if !defined(VH_ONLY) || VH_ONLY == 2
        else if (ty == "d")
            dispatch<double>(d);
#endif
#if !defined(VH_ONLY) || VH_ONLY == 3
        else if (ty == "l")
            dispatch<long double>(d);
#endif
        else
        {
            fprintf(stderr, "scalar type %s not built into this driver\n", ty.c_str());
            return 3;
        }
        }
        vh::out().flush();
    }
    vh::out().flush();
    return 0;
}
#endif
