// Generic runner for the implicitly-restarted (Arnoldi/Lanczos family) solvers:
// executes a history script on a solver object, logs every public call with its observable
// outcome, lets the guarded hooks log the internal actions, and appends measurements.
#ifndef VERIF_IR_RUN_H
#define VERIF_IR_RUN_H
#include "vh.h"
#include "gen.h"
#include <Spectra/Util/SelectionRule.h>
#include <Spectra/Util/CompInfo.h>
#include <Eigen/Eigenvalues>
#include <Eigen/LU>
#include <Eigen/Cholesky>
#include <memory>

namespace Spectra {
namespace verif {
// Friend access (guarded in /repo by SPECTRA_VERIF): read-only views of private state for measurement.
struct Access
{
    template <typename Base> static auto fac(const Base& b) -> decltype((b.m_fac)) { return b.m_fac; }
    template <typename Base> static auto ritz_val(const Base& b) -> decltype((b.m_ritz_val)) { return b.m_ritz_val; }
    template <typename Base> static auto ritz_vec(const Base& b) -> decltype((b.m_ritz_vec)) { return b.m_ritz_vec; }
    template <typename Base> static auto ritz_est(const Base& b) -> decltype((b.m_ritz_est)) { return b.m_ritz_est; }
    template <typename Base> static auto ritz_conv(const Base& b) -> decltype((b.m_ritz_conv)) { return b.m_ritz_conv; }
    template <typename Base> static Eigen::Index nev(const Base& b) { return b.m_nev; }
    template <typename Base> static Eigen::Index ncv(const Base& b) { return b.m_ncv; }
    template <typename Base> static Eigen::Index call_nev_adjusted(Base& b, Eigen::Index nconv) { return b.nev_adjusted(nconv); }
    template <typename Base> static auto ritz_val_mut(Base& b) -> decltype((b.m_ritz_val)) { return b.m_ritz_val; }
    template <typename Base> static auto ritz_est_mut(Base& b) -> decltype((b.m_ritz_est)) { return b.m_ritz_est; }
};
}  // namespace verif
}  // namespace Spectra

namespace vh {

using Spectra::CompInfo;
using Spectra::SortRule;
typedef Spectra::verif::Access Acc;

// ------------------------------------------------------------------------------------------
// Problem context in long double: the user's pencil (PA, PB), the iterated operator OP as an explicit
// matrix, the inner-product matrix IP, the back-transformation mode.
struct Ctx
{
    int n;
    CMatL PA, PB;     // user's pencil: PA x = lambda PB x   (PB = I for standard problems)
    CMatL OP;         // operator the Krylov iteration applies (explicit, long double)
    CMatL IP;         // inner product of the iteration (I or B or K)
    CMatL XIP;        // inner product in which the RETURNED vectors are orthonormal
    bool ip_ident, xip_ident;
    LD normPA, normPB, normOP, normIP;
    LD normS;         // ||A - sigma B|| in the shift modes (0 otherwise)
    LD condfac;       // condition number (1-norm estimate via explicit inverse) of the matrix that is factorized
    CVecL refspec;    // reference spectrum of the user's problem (if computed)
    std::vector<ll> pres_re2, pres_im2;  // C04: prescribed spectrum in half-units (2*Re, 2*Im), same indexing as refspec
    std::string mode; // plain | si | csi | chol | reginv | gsi | buck | cay
    LD sigr, sigi;
    Ctx() : n(0), ip_ident(true), xip_ident(true), normPA(0), normPB(1), normOP(0), normIP(1), normS(0), condfac(1), sigr(0), sigi(0) {}
    CVecL applyOP(const CVecL& v) const { return OP * v; }
    CVecL applyIP(const CVecL& v) const { return ip_ident ? v : CVecL(IP * v); }
    void finish()
    {
        n = (int) PA.rows();
        normPA = PA.norm();
        normPB = PB.norm();
        normOP = OP.norm();
        normIP = ip_ident ? 1.0L : IP.norm();
    }
};

// C04: the spectrum was prescribed with (Gaussian) integer values; the specification computes the wanted set exactly
inline void set_prescribed(Ctx& cx, const CVecL& spec)
{
    cx.refspec = spec;
    cx.pres_re2.clear();
    cx.pres_im2.clear();
    for (int i = 0; i < (int) spec.size(); i++)
    {
        cx.pres_re2.push_back((ll) std::llround(2.0L * spec[i].real()));
        cx.pres_im2.push_back((ll) std::llround(2.0L * spec[i].imag()));
    }
}
inline void set_prescribed(Ctx& cx, const VecL& spec)
{
    CVecL c(spec.size());
    for (int i = 0; i < (int) spec.size(); i++)
        c[i] = CLD(spec[i], 0);
    set_prescribed(cx, c);
}

template <typename T, typename M>
inline Eigen::Matrix<T, Eigen::Dynamic, Eigen::Dynamic> cast_mat(const M& m)
{
    return m.template cast<T>();
}

inline CMatL to_c(const MatL& m) { return m.cast<CLD>(); }

// ------------------------------------------------------------------------------------------
// Krylov measurement with a cache of OP * V columns
struct KrylovMeter
{
    const Ctx* cx;
    CMatL Vprev, OPV;
    std::vector<char> have;
    KrylovMeter() : cx(NULL) {}
    void reset(const Ctx* c, int m)
    {
        cx = c;
        Vprev = CMatL::Zero(c->n, m);
        OPV = CMatL::Zero(c->n, m);
        have.assign(m, 0);
    }
    // V (n x m), H (m x m), f (n), beta, k
    template <typename MV, typename MH, typename VF>
    void measure(const char* where, int k, const MV& V, const MH& H, const VF& f, LD beta, bool lanczos, int extra)
    {
        const int n = cx->n, m = (int) V.cols();
        Line l("MFac");
        l.str("at", where).i("k", k).i("x", extra);
        if (k < 1 || k > m || (int) V.rows() != n || (int) H.rows() != m || (int) f.size() != n)
        {
            l.i("shape", 0);
            out().put(l);
            return;
        }
        l.i("shape", 1);
        CMatL Vk(n, k);
        for (int j = 0; j < k; j++)
            for (int i = 0; i < n; i++)
                Vk(i, j) = CLD((LD) Eigen::numext::real(V(i, j)), (LD) Eigen::numext::imag(V(i, j)));
        for (int j = 0; j < k; j++)
        {
            bool same = have[j] && (Vk.col(j) == Vprev.col(j));
            if (!same)
            {
                Vprev.col(j) = Vk.col(j);
                OPV.col(j) = cx->OP * Vk.col(j);
                have[j] = 1;
            }
        }
        CMatL Hk(k, k);
        for (int j = 0; j < k; j++)
            for (int i = 0; i < k; i++)
                Hk(i, j) = CLD((LD) Eigen::numext::real(H(i, j)), (LD) Eigen::numext::imag(H(i, j)));
        CVecL fl(n);
        for (int i = 0; i < n; i++)
            fl[i] = CLD((LD) Eigen::numext::real(f[i]), (LD) Eigen::numext::imag(f[i]));
        CMatL R = OPV.leftCols(k) - Vk * Hk;
        R.col(k - 1) -= fl;
        const LD scale = cx->normOP > 0 ? cx->normOP : 1.0L;
        l.i("qAV", q(R.norm() / scale));
        // V^H B V - I
        CMatL BV = cx->ip_ident ? Vk : CMatL(cx->IP * Vk);
        CMatL G = Vk.adjoint() * BV;
        for (int i = 0; i < k; i++)
            G(i, i) -= CLD(1, 0);
        l.i("qVV", q(G.cwiseAbs().maxCoeff()));
        // V^H B f / ||f||_B
        CVecL Bf = cx->applyIP(fl);
        LD fn2 = (fl.adjoint() * Bf)(0, 0).real();
        LD fnB = fn2 > 0 ? std::sqrt(fn2) : 0.0L;
        CVecL Vf = Vk.adjoint() * Bf;
        LD vfmax = Vf.cwiseAbs().maxCoeff();
        // relative to the scale of the factorization (||OP||): f may legitimately be tiny
        l.i("qVf", q(vfmax / scale));
        l.i("qVfr", fnB > 0 ? q(vfmax / fnB) : QZERO);
        l.i("qf", q(fnB / scale));
        l.i("qbeta", q(std::fabs(beta - fnB) / scale));
        // shape of H: exact zeros below the first subdiagonal; Lanczos: tridiagonal, real, symmetric
        int hess = 1, tri = 1;
        LD himag = 0, hlow = 0;
        for (int j = 0; j < k; j++)
            for (int i = 0; i < k; i++)
            {
                if (i > j + 1 && Hk(i, j) != CLD(0, 0))
                {
                    hess = 0;
                    hlow = std::max(hlow, std::abs(Hk(i, j)));
                }
                if (lanczos)
                {
                    if ((i > j + 1 || j > i + 1) && Hk(i, j) != CLD(0, 0))
                        tri = 0;
                    himag = std::max(himag, std::fabs(Hk(i, j).imag()));
                    if (Hk(i, j).real() != Hk(j, i).real())
                        tri = 0;
                }
            }
        l.i("hess", hess).i("tri", lanczos ? tri : 1).i("lz", lanczos ? 1 : 0).i("qHim", lanczos ? q(himag / scale) : QZERO).i("qHlow", q(hlow / scale));
        l.i("fin", all_finite(Vk) && all_finite(Hk) && all_finite(fl) ? 1 : 0);
        out().put(l);
    }
};

// ------------------------------------------------------------------------------------------
struct Args
{
    int sel, sort;
    ll maxit;
    std::string tols;  // "-10" => 1e-10 ; "e8" => 8*eps
    template <typename Real>
    Real tol() const
    {
        if (!tols.empty() && tols[0] == 'e')
            return Real(atof(tols.c_str() + 1)) * std::numeric_limits<Real>::epsilon();
        return Real(std::pow(10.0L, (LD) atof(tols.c_str())));
    }
    static Args parse(const std::string& s)
    {
        // sel:maxit:tol:sort
        Args a;
        std::vector<std::string> p;
        size_t b = 0;
        while (b <= s.size())
        {
            size_t e = s.find(':', b);
            if (e == std::string::npos)
                e = s.size();
            p.push_back(s.substr(b, e - b));
            b = e + 1;
        }
        a.sel = atoi(p[0].c_str());
        a.maxit = atoll(p[1].c_str());
        a.tols = p[2];
        a.sort = atoi(p[3].c_str());
        return a;
    }
};

// keys of returned eigenvalues as dense ranks, computed with the library's own key functions
template <typename R>
inline void key_ranks(const Eigen::Matrix<R, Eigen::Dynamic, 1>& ev, Line& l)
{
    std::vector<R> a, m;
    for (Eigen::Index i = 0; i < ev.size(); i++)
    {
        a.push_back(ev[i]);
        m.push_back(std::abs(ev[i]));
    }
    l.arr("kA", dense_ranks(a)).arr("kM", dense_ranks(m));
}
template <typename R>
inline void key_ranks(const Eigen::Matrix<std::complex<R>, Eigen::Dynamic, 1>& ev, Line& l)
{
    std::vector<R> re, im, m;
    for (Eigen::Index i = 0; i < ev.size(); i++)
    {
        re.push_back(ev[i].real());
        im.push_back(std::abs(ev[i].imag()));
        m.push_back(std::abs(ev[i]));
    }
    l.arr("kR", dense_ranks(re)).arr("kI", dense_ranks(im)).arr("kM", dense_ranks(m));
}

// ------------------------------------------------------------------------------------------
// The runner.  Solver: public solver class; Base: HermEigsBase<...> / GenEigsBase<...> it derives from;
// Maker: callable that constructs a fresh solver (so that histories can contain "new object" steps).
template <typename Solver, typename Base, typename Scalar>
struct Runner
{
    typedef typename Eigen::NumTraits<Scalar>::Real Real;
    typedef Eigen::Matrix<Scalar, Eigen::Dynamic, 1> Vec;
    const Desc& d;
    const Ctx& cx;
    OpStats& st;
    TraceSink& sink;
    std::function<Solver*()> make;
    std::function<ll()> op_probe;  // digest of op * w for a fixed w (operator behaviour probe); may be empty
    std::function<void()> op_reshift;  // shift classes: someone else uses the operator object with ANOTHER shift and puts the solver's shift back
    bool lanczos;
    int meas;      // 0 none, 1 FacDone/CompressV/FacInit, 2 also every FacStep
    bool measconv; // measure iterated-operator residual of flagged pairs at every NumConv
    std::unique_ptr<Solver> eigs;
    KrylovMeter km;
    int cur_sv, cur_args;
    ll ncompute;
    std::vector<Args> argsets;
    Real last_tol;
    ll last_pair_ops;   // applications (attempts) of the fault-target operator during the last "init(); compute()" pair
    ll ops_at_init;
    OpStats* fst;       // statistics of the operator that faults are injected into (A side by default, B side with ftarget=b)

    Runner(const Desc& d_, const Ctx& cx_, OpStats& st_, TraceSink& sink_) :
        d(d_), cx(cx_), st(st_), sink(sink_), lanczos(false), meas(1), measconv(true), cur_sv(-1), cur_args(-1), ncompute(0), last_tol(0), last_pair_ops(0), ops_at_init(0), fst(&st_)
    {}

    const Base& base() const { return static_cast<const Base&>(*eigs); }

    void hook(const char* name, const void*, const long long* v, int nv)
    {
        if (!eigs)
            return;
        const bool isFacDone = !strcmp(name, "FacDone"), isCV = !strcmp(name, "CompressV"), isInit = !strcmp(name, "FacInit");
        const bool isStep = !strcmp(name, "FacStep");
        if (meas >= 1 && (isFacDone || isCV || isInit || (isStep && meas >= 2)))
        {
            const auto& fac = Acc::fac(base());
            int k = isStep ? (int) v[0] : (int) fac.subspace_dim();
            km.measure(name, k, fac.matrix_V(), fac.matrix_H(), fac.vector_f(), (LD) fac.f_norm(), lanczos, isStep ? (int) v[1] : 0);
        }
        if (measconv && !strcmp(name, "NumConv"))
            measure_conv();
        (void) nv;
    }

    // iterated-operator residual ||OP y - nu y||_IP for every flagged Ritz pair at a NumConv event
    void measure_conv()
    {
        const auto& fac = Acc::fac(base());
        const auto& rv = Acc::ritz_val(base());
        const auto& rvec = Acc::ritz_vec(base());
        const auto& conv = Acc::ritz_conv(base());
        const int nev = (int) Acc::nev(base());
        const int n = cx.n, m = (int) fac.matrix_V().cols();
        std::vector<ll> idx, qres, qnu;
        CMatL V(n, m);
        for (int j = 0; j < m; j++)
            for (int i = 0; i < n; i++)
                V(i, j) = CLD((LD) Eigen::numext::real(fac.matrix_V()(i, j)), (LD) Eigen::numext::imag(fac.matrix_V()(i, j)));
        for (int i = 0; i < nev && i < (int) conv.size(); i++)
        {
            if (!conv[i])
                continue;
            CVecL s(m);
            for (int j = 0; j < m; j++)
                s[j] = CLD((LD) Eigen::numext::real(rvec(j, i)), (LD) Eigen::numext::imag(rvec(j, i)));
            CVecL y = V * s;
            CLD nu((LD) Eigen::numext::real(rv[i]), (LD) Eigen::numext::imag(rv[i]));
            CVecL r = cx.OP * y - nu * y;
            CVecL Br = cx.applyIP(r);
            LD rn = std::sqrt(std::max((LD) 0, (r.adjoint() * Br)(0, 0).real()));
            idx.push_back(i);
            qres.push_back(q(rn));
            qnu.push_back(q(std::abs(nu)));
        }
        Line l("MConv");
        l.arr("idx", idx).arr("qres", qres).arr("qnu", qnu).i("qtol", q((LD) last_tol));
        out().put(l);
    }

    void obs(const char* after)
    {
        sink.enabled = false;
        Line l("Obs");
        l.str("after", after);
        l.i("info", (ll) eigs->info());
        auto ev = eigs->eigenvalues();
        auto X = eigs->eigenvectors();
        l.i("nval", (ll) ev.size()).i("ncol", (ll) X.cols()).i("nrow", (ll) X.rows());
        l.i("nops", (ll) eigs->num_operations()).i("niter", (ll) eigs->num_iterations());
        l.i("t", st.count).i("probe", st.probe).i("bad", st.bad).i("ft", st.thrown + (fst != &st ? fst->thrown : 0));
        l.i("fin", (all_finite(ev) && all_finite(X)) ? 1 : 0);
        key_ranks(ev, l);
        std::vector<ll> cd;
        for (Eigen::Index j = 0; j < X.cols(); j++)
        {
            Digest g;
            g.mat(X.col(j));
            cd.push_back(g.word30());
        }
        l.arr("cd", cd);
        // eigenvectors(m) for m in {0, 1, count-1, count, count+3}: [m, cols, q(max |X_m - X(:, 1..cols)|)]
        // (a matrix-vector and a matrix-matrix product may round differently, so the difference is measured, not hashed)
        std::vector<std::vector<ll> > cdm;
        const ll cnt = (ll) ev.size();
        ll ms[5] = {0, 1, cnt - 1, cnt, cnt + 3};
        for (int a = 0; a < 5; a++)
        {
            if (ms[a] < 0)
                continue;
            auto Xm = eigs->eigenvectors((Eigen::Index) ms[a]);
            std::vector<ll> row;
            row.push_back(ms[a]);
            row.push_back((ll) Xm.cols());
            LD df = 0;
            bool shape_ok = Xm.rows() == X.rows() && Xm.cols() <= X.cols();
            if (shape_ok)
                for (Eigen::Index j = 0; j < Xm.cols(); j++)
                    for (Eigen::Index i = 0; i < Xm.rows(); i++)
                        df = std::max(df, (LD) std::abs(Xm(i, j) - X(i, j)));
            row.push_back(shape_ok ? q(df) : QNAN);
            cdm.push_back(row);
        }
        l.arr2("cdm", cdm);
        // digest of all public results and counters
        Digest g;
        g.mat(ev);
        g.mat(X);
        g.i64((ll) eigs->info());
        g.i64((ll) eigs->num_operations());
        g.i64((ll) eigs->num_iterations());
        ll w[3];
        g.words(w);
        l.arr("dg", w, 3);
        out().put(l);
        sink.enabled = true;
    }

    // per-pair measurements of the returned results against the user's pencil
    void measure_pairs()
    {
        sink.enabled = false;
        auto ev = eigs->eigenvalues();
        auto X = eigs->eigenvectors();
        const int k = (int) ev.size(), n = cx.n;
        CMatL Xl(n, X.cols());
        for (int j = 0; j < (int) X.cols(); j++)
            for (int i = 0; i < n && i < (int) X.rows(); i++)
                Xl(i, j) = CLD((LD) Eigen::numext::real(X(i, j)), (LD) Eigen::numext::imag(X(i, j)));
        std::vector<ll> qres, qlam, qnx, qx2, qdist, ridx;
        const int kk = std::min(k, (int) X.cols());
        CMatL BX = cx.xip_ident ? Xl : CMatL(cx.XIP * Xl);
        for (int i = 0; i < kk; i++)
        {
            CLD lam((LD) Eigen::numext::real(ev[i]), (LD) Eigen::numext::imag(ev[i]));
            CVecL x = Xl.col(i);
            CVecL r = cx.PA * x - lam * (cx.PB * x);
            qres.push_back(q(r.norm()));
            qlam.push_back(q(std::abs(lam)));
            LD nb2 = (x.adjoint() * BX.col(i))(0, 0).real();
            LD nb = nb2 > 0 ? std::sqrt(nb2) : 0;
            qnx.push_back(q(std::fabs(nb - 1.0L)));
            qx2.push_back(q(x.norm()));
            if (cx.refspec.size())
            {
                LD best = -1;
                int bi = -1;
                for (int j = 0; j < (int) cx.refspec.size(); j++)
                {
                    LD dd = std::abs(cx.refspec[j] - lam);
                    if (bi < 0 || dd < best)
                    {
                        best = dd;
                        bi = j;
                    }
                }
                qdist.push_back(q(best));
                ridx.push_back(bi + 1);
            }
        }
        // orthonormality / parallelism between distinct returned vectors
        LD orth = 0, par = 0;
        std::vector<ll> pidx(kk, 0), rmult(kk, 0);
        for (int i = 0; i < kk; i++)
            for (int j = 0; j < kk; j++)
                if (i != j)
                {
                    LD v = std::abs((Xl.col(i).adjoint() * BX.col(j))(0, 0));
                    orth = std::max(orth, v);
                    LD ni = Xl.col(i).norm(), nj = Xl.col(j).norm();
                    if (ni > 0 && nj > 0)
                    {
                        LD c = std::abs((Xl.col(i).adjoint() * Xl.col(j))(0, 0)) / (ni * nj);
                        par = std::max(par, c);
                        // x_i is a copy of an earlier returned vector x_j (1 - |cos| < 2^-20)
                        if (j < i && 1.0L - std::min(c, 1.0L) < 9.5e-7L && pidx[i] == 0)
                            pidx[i] = j + 1;
                    }
                }
        // multiplicity of the matched reference eigenvalue: number of reference values within 2^-20 ||A|| of it
        if (cx.refspec.size())
            for (int i = 0; i < kk; i++)
            {
                int bi = (int) ridx[i] - 1;
                for (int j = 0; j < (int) cx.refspec.size(); j++)
                    if (std::abs(cx.refspec[j] - cx.refspec[bi]) <= 9.5e-7L * (cx.normPA > 0 ? cx.normPA : 1.0L))
                        rmult[i]++;
            }
        Line l("MPairs");
        l.arr("qres", qres).arr("qlam", qlam).arr("qnx", qnx).arr("qx2", qx2);
        l.i("qorth", kk > 1 ? q(orth) : QZERO).i("qpar1", kk > 1 ? q(1.0L - std::min(par, 1.0L)) : 0);
        if (cx.refspec.size())
            l.arr("qdist", qdist).arr("ridx", ridx).arr("pidx", pidx).arr("rmult", rmult);
        l.i("qtol", q((LD) last_tol));
        out().put(l);
        if (!cx.pres_re2.empty() && cur_args >= 0)
        {
            // C04: which prescribed eigenvalues were returned (nearest match, distance measured); the spec decides whether
            // that index set is the one the selection rule names for the transformed spectrum
            Line m("MSel");
            m.i("info", (ll) eigs->info()).i("rule", argsets[cur_args].sel).i("k", (ll) Acc::nev(base()));
            m.arr("re2", cx.pres_re2).arr("im2", cx.pres_im2);
            m.i("sig2", (ll) std::llround(2.0L * cx.sigr)).i("sigi2", (ll) std::llround(2.0L * cx.sigi));
            m.arr("ridx", ridx).arr("qdist", qdist);
            out().put(m);
        }
        sink.enabled = true;
    }

    void call_line(const char* f, int a, int b)
    {
        Line l("Call");
        l.str("f", f).i("a", a).i("b", b);
        out().put(l);
    }
    void ret_line(const char* f, ll r)
    {
        Line l("Ret");
        l.str("f", f).i("r", r).i("t", st.count);
        out().put(l);
    }
    void threw_line(const char* f, const std::exception& e)
    {
        Line l("Threw");
        const Fault* ft = dynamic_cast<const Fault*>(&e);
        l.str("f", f).str("x", exc_name(e)).i("tag", ft ? ft->tag : 0).i("t", st.count);
        out().put(l);
    }

    void threw_raw(const char* f, const RawFault& e)
    {
        Line l("Threw");
        l.str("f", f).str("x", "fault").i("tag", e.tag).i("t", st.count);
        out().put(l);
    }

    void construct()
    {
        {
            Line l("Call");
            l.str("f", "new").i("a", 0).i("b", 0);
            out().put(l);
        }
        eigs.reset();
        try
        {
            eigs.reset(make());
            st.count = 0;
            st.probe = 0;
            km.reset(&cx, (int) Acc::ncv(base()));
            ret_line("new", 0);
            obs("new");
        }
        catch (const std::exception& e)
        {
            threw_line("new", e);
        }
    }

    // Execute one history token
    void step(const std::string& tok, const SymProblem* sp)
    {
        if (tok == "N")
        {
            construct();
            return;
        }
        if (!eigs)
            return;
        if (tok == "I" || tok[0] == 'V' || tok == "Z")
        {
            int svid = tok == "I" ? 0 : (tok == "Z" ? 99 : atoi(tok.c_str() + 1));
            call_line("init", svid, 0);
            st.in_probe = false;
            try
            {
                st.count = 0;
                st.probe = 0;
                ops_at_init = fst->total;
                if (tok == "I")
                    eigs->init();
                else
                {
                    std::string kind = tok == "Z" ? "zero" : d.s("sv" + std::to_string(svid), "rnd");
                    VecL v0 = gen_start(kind, cx.n, (uint64_t) d.i("seed", 1) + 31 * svid, sp ? sp->blk : (int) d.i("blk", 0), sp && sp->Q.size() ? &sp->Q : NULL, (int) d.i("dlt", -9));
                    Vec v(cx.n);
                    for (int i = 0; i < cx.n; i++)
                        v[i] = Scalar((Real) v0[i]);
                    eigs->init(v.data());
                }
                cur_sv = svid;
                ret_line("init", 0);
            }
            catch (const std::exception& e)
            {
                cur_sv = -1;
                threw_line("init", e);
            }
            catch (const RawFault& e)
            {
                cur_sv = -1;
                threw_raw("init", e);
            }
            obs("init");
            return;
        }
        if (tok[0] == 'C')
        {
            int aid = atoi(tok.c_str() + 1);
            const Args& a = argsets[aid];
            cur_args = aid;
            last_tol = a.tol<Real>();
            {
                Line l("Call");
                l.str("f", "compute").i("a", aid).i("b", cur_sv).i("sel", a.sel).i("maxit", a.maxit).i("sort", a.sort).i("qtol", q((LD) last_tol));
                out().put(l);
            }
            bool ok = false;
            ll r = -1;
            st.in_probe = false;
            try
            {
                r = (ll) eigs->compute((SortRule) a.sel, (Eigen::Index) a.maxit, last_tol, (SortRule) a.sort);
                ok = true;
                last_pair_ops = fst->total - ops_at_init;
                ret_line("compute", r);
            }
            catch (const std::exception& e)
            {
                threw_line("compute", e);
            }
            catch (const RawFault& e)
            {
                threw_raw("compute", e);
            }
            obs("compute");
            if (ok)
                measure_pairs();
            return;
        }
        if (tok[0] == 'F')
        {
            // arm a fault at the k-th application from now
            ll k = atoll(tok.c_str() + 1);
            fst->fault_at = k > 0 ? fst->total + k : 0;
            fst->fault_tag = k;
            fst->fault_kind = (int) d.i("fkind", 0);
            fst->thrown_since_arm = 0;
            Line l("Arm");
            l.i("k", k);
            out().put(l);
            return;
        }
        if (tok == "P")
        {
            if (op_probe)
            {
                sink.enabled = false;
                ll save_count = st.count, save_total = st.total, save_probe = st.probe;
                ll save_fault = st.fault_at, save_ffault = fst->fault_at;
                st.fault_at = 0;
                fst->fault_at = 0;
                ll dgt = op_probe();
                st.count = save_count;
                st.total = save_total;
                st.probe = save_probe;
                st.fault_at = save_fault;
                fst->fault_at = save_ffault;
                sink.enabled = true;
                Line l("OpProbe");
                l.i("dg", dgt);
                out().put(l);
            }
            return;
        }
        if (tok == "S")
        {
            // token S: set_shift(another shift); set_shift(the solver's shift) on the operator object itself - its behaviour must be unchanged
            if (op_reshift)
            {
                sink.enabled = false;
                op_reshift();
                sink.enabled = true;
                Line l("Reshift");
                out().put(l);
            }
            return;
        }
        if (tok == "A" || tok == "A2")
        {
            // fault sweep: K = applications of the fault-free "init(); compute(args0)" that was just executed;
            // for every k (stride fstride): arm a fault at the k-th application, run init(); compute() (one of them throws),
            // then run init(); compute() again without fault: its digest is compared with the baseline by the spec.
            // A2: a second fault at application k2 of the retry before the clean run.
            const ll K = last_pair_ops;
            const ll stride = std::max<ll>(1, d.i("fstride", 1));
            const ll off = d.i("foff", 0) % stride;
            for (ll k = 1 + off; k <= K; k += stride)
            {
                step("F" + std::to_string(k), sp);
                step("I", sp);
                if (eigs && fst->thrown_since_arm == 0)
                    step("C0", sp);
                if (tok == "A2")
                {
                    ll k2 = 1 + (k * 7) % K;
                    step("F" + std::to_string(k2), sp);
                    step("I", sp);
                    if (fst->thrown_since_arm == 0)
                        step("C0", sp);
                }
                step("F0", sp);
                step("I", sp);
                step("C0", sp);
            }
            return;
        }
        fprintf(stderr, "unknown history token %s\n", tok.c_str());
        exit(3);
    }

    void run(const SymProblem* sp)
    {
        meas = (int) d.i("meas", 1);
        measconv = d.i("mconv", 1) != 0;
        for (int j = 0; j < 8; j++)
            if (d.has("args" + std::to_string(j)))
                argsets.push_back(Args::parse(d.s("args" + std::to_string(j))));
            else
                break;
        sink.stats = &st;
        sink.cb = [this](const char* nm, const void* o, const long long* v, int nv) { this->hook(nm, o, v, nv); };
        Spectra::verif::sink() = &sink;
        std::vector<std::string> hist = d.list("hist");
        for (size_t i = 0; i < hist.size(); i++)
            step(hist[i], sp);
        Spectra::verif::sink() = NULL;
        sink.cb = nullptr;
        eigs.reset();
        Line l("End");
        l.i("ov", g_heap_overruns_ptr ? (ll) *g_heap_overruns_ptr - g_heap_ov0 : 0);
        out().put(l);
    }
};

// Reset line with the run's descriptor and the context magnitudes the spec's formulas need
inline void reset_line(const Desc& d, const Ctx& cx, int tycode, int herm, ll id)
{
    Line l("Reset");
    l.i("id", id).str("cls", d.s("cls")).str("fam", d.s("fam", "rand")).str("mode", cx.mode).i("ty", tycode).i("herm", herm);
    l.i("n", d.i("n")).i("nev", d.i("nev")).i("ncv", d.i("ncv"));
    l.i("qn", q((LD) d.i("n")));
    l.i("qnA", q(cx.normPA)).i("qnB", q(cx.normPB)).i("qnOP", q(cx.normOP)).i("qnIP", q(cx.normIP)).i("qcond", q(cx.condfac));
    l.i("qnS", cx.normS > 0 ? q(cx.normS) : 0);
    l.i("ref", cx.refspec.size() ? 1 : 0);
    l.i("live", g_heap_live);  // live heap blocks when this run started (leak observation across identical runs)
    l.i("kf", d.i("kf", 0));  // known-finding family marker (fixed descriptors only)
    l.str("desc", d.raw);
    out().put(l);
}

}  // namespace vh
#endif
