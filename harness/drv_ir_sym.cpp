// Driver: SymEigsSolver, SymEigsShiftSolver, HermEigsSolver.
// Reads descriptors (one per line) from stdin, writes the ndjson trace to stdout.
#include "ir_run.h"
#include <Spectra/SymEigsSolver.h>
#include <Spectra/SymEigsShiftSolver.h>
#include <Spectra/HermEigsSolver.h>
#include <Spectra/MatOp/DenseSymMatProd.h>
#include <Spectra/MatOp/SparseSymMatProd.h>
#include <Spectra/MatOp/DenseHermMatProd.h>
#include <Spectra/MatOp/DenseSymShiftSolve.h>
#include <Spectra/MatOp/SparseSymShiftSolve.h>

using namespace vh;
using namespace Spectra;

static ll g_id = 0;

template <typename OpT>
ll probe_digest(OpT& op, int n)
{
    typedef typename OpT::Scalar S;
    typedef Eigen::Matrix<S, Eigen::Dynamic, 1> V;
    V w(n), y(n);
    for (int i = 0; i < n; i++)
        w[i] = S((typename Eigen::NumTraits<S>::Real)(1.0 + 0.37 * ((i * 7) % 11)));
    op.perform_op(w.data(), y.data());
    Digest g;
    g.mat(y);
    return g.word30();
}

template <typename T>
void run_sym(const Desc& d)
{
    typedef Eigen::Matrix<T, Eigen::Dynamic, Eigen::Dynamic> Mat;
    SymProblem sp = gen_sym(d);
    const int n = (int) d.i("n");
    Mat A = sp.A.cast<T>();
    Ctx cx;
    cx.mode = "plain";
    cx.PA = to_c(A.template cast<LD>());
    cx.PB = CMatL::Identity(n, n);
    cx.OP = cx.PA;
    cx.finish();
    if (d.i("c04") && sp.spec.size())
        set_prescribed(cx, sp.spec);
    const Eigen::Index nev = (Eigen::Index) d.i("nev"), ncv = (Eigen::Index) d.i("ncv");
    OpStats st;
    TraceSink sink;
    reset_line(d, cx, Ty<T>::code(), 0, ++g_id);
    if (d.s("store", "dense") == "sparse")
    {
        typedef SparseSymMatProd<T> In;
        typedef CountOp<In> Op;
        typedef SymEigsSolver<Op> Solver;
        typedef HermEigsBase<Op, IdentityBOp> Base;
        Eigen::SparseMatrix<T> As = A.sparseView();
        In in(As);
        Op op(in, &st);
        Runner<Solver, Base, T> r(d, cx, st, sink);
        r.lanczos = true;
        r.make = [&]() { return new Solver(op, nev, ncv); };
        r.op_probe = [&]() { return probe_digest(op, n); };
        r.run(&sp);
    }
    else
    {
        typedef DenseSymMatProd<T> In;
        typedef CountOp<In> Op;
        typedef SymEigsSolver<Op> Solver;
        typedef HermEigsBase<Op, IdentityBOp> Base;
        In in(A);
        Op op(in, &st);
        Runner<Solver, Base, T> r(d, cx, st, sink);
        r.lanczos = true;
        r.make = [&]() { return new Solver(op, nev, ncv); };
        r.op_probe = [&]() { return probe_digest(op, n); };
        r.run(&sp);
    }
}

template <typename T>
void run_symsh(const Desc& d)
{
    typedef Eigen::Matrix<T, Eigen::Dynamic, Eigen::Dynamic> Mat;
    SymProblem sp = gen_sym(d);
    const int n = (int) d.i("n");
    Mat A = sp.A.cast<T>();
    const T sigma = (T) d.f("sigma", 0.5L);
    Ctx cx;
    cx.mode = "si";
    cx.sigr = (LD) sigma;
    cx.PA = to_c(A.template cast<LD>());
    cx.PB = CMatL::Identity(n, n);
    CMatL S = cx.PA - CLD((LD) sigma, 0) * CMatL::Identity(n, n);
    cx.OP = S.inverse();
    cx.condfac = S.norm() * cx.OP.norm();
    cx.normS = S.norm();
    cx.finish();
    if (d.i("c04") && sp.spec.size())
        set_prescribed(cx, sp.spec);
    const Eigen::Index nev = (Eigen::Index) d.i("nev"), ncv = (Eigen::Index) d.i("ncv");
    OpStats st;
    TraceSink sink;
    reset_line(d, cx, Ty<T>::code(), 0, ++g_id);
    if (d.s("store", "dense") == "sparse")
    {
        typedef SparseSymShiftSolve<T> In;
        typedef CountOp<In> Op;
        typedef SymEigsShiftSolver<Op> Solver;
        typedef HermEigsBase<Op, IdentityBOp> Base;
        Eigen::SparseMatrix<T> As = A.sparseView();
        In in(As);
        // presig: the operator object has been used before with ANOTHER shift (an earlier solver, or the user's own set_shift)
        if (d.has("presig"))
            in.set_shift((T) d.f("presig"));
        Op op(in, &st);
        Runner<Solver, Base, T> r(d, cx, st, sink);
        r.lanczos = true;
        // the shift is handed over in a variable of the caller that is overwritten right after construction: the solver must have taken a copy
        T sigvar = sigma;
        r.make = [&]() { sigvar = sigma; Solver* s = new Solver(op, nev, ncv, sigvar); sigvar = sigma + T(977); return s; };
        r.op_probe = [&]() { return probe_digest(op, n); };
        r.op_reshift = [&]() { try { in.set_shift((T) d.f("resig", 0.21L)); } catch (const std::exception&) {} in.set_shift(sigma); };
        r.run(&sp);
    }
    else
    {
        typedef DenseSymShiftSolve<T> In;
        typedef CountOp<In> Op;
        typedef SymEigsShiftSolver<Op> Solver;
        typedef HermEigsBase<Op, IdentityBOp> Base;
        In in(A);
        if (d.has("presig"))
            in.set_shift((T) d.f("presig"));
        Op op(in, &st);
        Runner<Solver, Base, T> r(d, cx, st, sink);
        r.lanczos = true;
        // the shift is handed over in a variable of the caller that is overwritten right after construction: the solver must have taken a copy
        T sigvar = sigma;
        r.make = [&]() { sigvar = sigma; Solver* s = new Solver(op, nev, ncv, sigvar); sigvar = sigma + T(977); return s; };
        r.op_probe = [&]() { return probe_digest(op, n); };
        r.op_reshift = [&]() { try { in.set_shift((T) d.f("resig", 0.21L)); } catch (const std::exception&) {} in.set_shift(sigma); };
        r.run(&sp);
    }
}

template <typename T>
void run_herm(const Desc& d)
{
    typedef std::complex<T> C;
    typedef Eigen::Matrix<C, Eigen::Dynamic, Eigen::Dynamic> Mat;
    VecL spec;
    CMatL AL = gen_herm(d, spec);
    const int n = (int) d.i("n");
    Mat A = AL.cast<C>();
    Ctx cx;
    cx.mode = "plain";
    cx.PA = A.template cast<CLD>();
    cx.PB = CMatL::Identity(n, n);
    cx.OP = cx.PA;
    cx.finish();
    if (d.i("c04") && spec.size())
        set_prescribed(cx, spec);
    const Eigen::Index nev = (Eigen::Index) d.i("nev"), ncv = (Eigen::Index) d.i("ncv");
    OpStats st;
    TraceSink sink;
    reset_line(d, cx, Ty<C>::code(), 1, ++g_id);
    typedef DenseHermMatProd<C> In;
    typedef CountOp<In> Op;
    typedef HermEigsSolver<Op> Solver;
    typedef HermEigsBase<Op, IdentityBOp> Base;
    In in(A);
    Op op(in, &st);
    Runner<Solver, Base, C> r(d, cx, st, sink);
    r.lanczos = true;
    r.make = [&]() { return new Solver(op, nev, ncv); };
    r.op_probe = [&]() { return probe_digest(op, n); };
    SymProblem sp;
    sp.blk = (int) d.i("blk", 0);
    r.run(&sp);
}

template <typename T>
void dispatch(const Desc& d)
{
    const std::string cls = d.s("cls");
    if (cls == "sym")
        run_sym<T>(d);
    else if (cls == "symsh")
        run_symsh<T>(d);
    else if (cls == "herm")
        run_herm<T>(d);
    else
    {
        fprintf(stderr, "drv_ir_sym: unknown cls %s\n", cls.c_str());
        exit(3);
    }
}

#include "drv_main.h"
