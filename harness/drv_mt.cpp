// Driver for C20: solver instances running concurrently in different threads (own operator each, or one shared const
// product wrapper) against the same jobs run one after another.  Each thread has its own hook sink (the sink pointer is
// thread_local in VerifHook.h) that folds every event (name + integer payload) into a stream digest; the digests of the
// event streams and of the public results are logged for the concurrent and for the sequential execution of every job.
#include "alloc_guard.h"
#include "vh.h"
#include "gen.h"
#include <Spectra/SymEigsSolver.h>
#include <Spectra/GenEigsSolver.h>
#include <Spectra/SymEigsShiftSolver.h>
#include <Spectra/MatOp/DenseSymMatProd.h>
#include <Spectra/MatOp/SparseSymMatProd.h>
#include <Spectra/MatOp/DenseGenMatProd.h>
#include <Spectra/MatOp/SparseGenMatProd.h>
#include <Spectra/MatOp/DenseSymShiftSolve.h>
#include <Spectra/DavidsonSymEigsSolver.h>
#include <atomic>
#include <memory>
#include <thread>
#include <sys/wait.h>
#include <unistd.h>

using namespace vh;
using namespace Spectra;

struct StreamSink : public Spectra::verif::Sink
{
    Digest g;
    ll count;
    StreamSink() : count(0) {}
    void event(const char* name, const void*, const long long* vals, int n)
    {
        g.bytes(name, strlen(name));
        for (int i = 0; i < n; i++)
            g.i64(vals[i]);
        count++;
    }
};

// Operator adaptor that dwells a few microseconds between being handed its input vector and reading it: a solver-side buffer that
// is (wrongly) shared between solver objects is then overwritten by another thread with near certainty instead of once in a million runs.
template <typename In>
struct SlowOp
{
    typedef typename In::Scalar Scalar;
    const In& in;
    explicit SlowOp(const In& i) : in(i) {}
    Eigen::Index rows() const { return in.rows(); }
    Eigen::Index cols() const { return in.cols(); }
    void perform_op(const Scalar* x, Scalar* y) const
    {
        for (int i = 0; i < 8; i++)
            std::this_thread::yield();
        volatile unsigned spin = 3000;
        while (spin)
            spin = spin - 1;
        in.perform_op(x, y);
    }
};

struct JobResult
{
    ll ev, res, nevents, info;
};

// kind 0: SymEigsSolver/DenseSymMatProd   1: GenEigsSolver/DenseGenMatProd   2: SymEigsSolver/SparseSymMatProd   3: GenEigsSolver/SparseGenMatProd
//      4: DavidsonSymEigsSolver/DenseSymMatProd   5: DavidsonSymEigsSolver/SparseSymMatProd (block products through operator*)
struct Job
{
    int kind, n, nev, ncv, rule;
    Eigen::MatrixXd A;
    Eigen::SparseMatrix<double> As;
};

template <typename Solver, typename Op>
static JobResult run_with_op(Op& op, const Job& j)
{
    StreamSink sink;
    Spectra::verif::sink() = &sink;
    JobResult r;
    {
        Solver eigs(op, j.nev, j.ncv);
        eigs.init();
        eigs.compute((SortRule) j.rule, 60, 1e-9);
        Digest g;
        g.mat(eigs.eigenvalues());
        g.mat(eigs.eigenvectors());
        g.i64((ll) eigs.num_operations());
        g.i64((ll) eigs.num_iterations());
        r.res = g.word30();
        r.info = (ll) eigs.info();
    }
    Spectra::verif::sink() = NULL;
    r.ev = sink.g.word30();
    r.nevents = sink.count;
    return r;
}

// Davidson: no init(); the operator is used through its block product operator* and its diagonal
template <typename Op>
static JobResult run_dav(Op& op, const Job& j)
{
    StreamSink sink;
    Spectra::verif::sink() = &sink;
    JobResult r;
    {
        DavidsonSymEigsSolver<Op> eigs(op, j.nev);
        eigs.compute((SortRule) j.rule, 100, 1e-8);
        Digest g;
        g.mat(eigs.eigenvalues());
        g.mat(eigs.eigenvectors());
        g.i64((ll) eigs.num_iterations());
        r.res = g.word30();
        r.info = (ll) eigs.info();
    }
    Spectra::verif::sink() = NULL;
    r.ev = sink.g.word30();
    r.nevents = sink.count;
    return r;
}

// own operator per run
static JobResult run_private(const Job& j)
{
    if (j.kind == 4)
    {
        DenseSymMatProd<double> op(j.A);
        return run_dav(op, j);
    }
    if (j.kind == 5)
    {
        SparseSymMatProd<double> op(j.As);
        return run_dav(op, j);
    }
    if (j.kind == 0)
    {
        DenseSymMatProd<double> in(j.A);
        SlowOp<DenseSymMatProd<double> > op(in);
        return run_with_op<SymEigsSolver<SlowOp<DenseSymMatProd<double> > > >(op, j);
    }
    if (j.kind == 1)
    {
        DenseGenMatProd<double> in(j.A);
        SlowOp<DenseGenMatProd<double> > op(in);
        return run_with_op<GenEigsSolver<SlowOp<DenseGenMatProd<double> > > >(op, j);
    }
    if (j.kind == 2)
    {
        SparseSymMatProd<double> in(j.As);
        SlowOp<SparseSymMatProd<double> > op(in);
        return run_with_op<SymEigsSolver<SlowOp<SparseSymMatProd<double> > > >(op, j);
    }
    SparseGenMatProd<double> in(j.As);
    SlowOp<SparseGenMatProd<double> > op(in);
    return run_with_op<GenEigsSolver<SlowOp<SparseGenMatProd<double> > > >(op, j);
}

static Job make_job(int kind, Rng& r, int variant)
{
    Job j;
    j.kind = kind;
    j.n = 40 + r.below(60);
    // breakdown-heavy rounds mix very small and large problems: thresholds that depend on n (eps * sqrt(n)) differ by a factor of 6
    if (variant == 1 && kind < 4)
        j.n = r.below(2) ? 10 + r.below(4) : 300 + r.below(100);
    const bool gen = kind == 1 || kind == 3;
    j.nev = 2 + r.below(3);
    j.ncv = std::min(j.n, 2 * j.nev + 3 + r.below(6));
    j.rule = gen ? 0 : (r.below(2) ? 0 : 3);
    MatL A = MatL::Zero(j.n, j.n);
    if (kind >= 4)
    {
        // Davidson: diagonally dominant symmetric matrix
        j.nev = 2 + r.below(3);
        j.rule = r.below(2) ? 3 : 7;
        for (int i = 0; i < j.n; i++)
        {
            A(i, i) = (LD)(i + 1) + 0.1L * r.sym();
            for (int k = 0; k < i; k++)
                if (kind == 4 || r.below(100) < 25)
                    A(i, k) = A(k, i) = 0.01L * r.sym();
        }
    }
    else if (variant == 2 && gen)
    {
        // [M C; 0 0]: exact zero rows, rank < ncv: range(A) is spanned exactly by V after a few steps, so the first attempt of expand_basis
        // (A * random) fails and the fallback directions are drawn
        const int rk = 3 + r.below(2);
        for (int i = 0; i < rk; i++)
            for (int k = 0; k < j.n; k++)
                A(i, k) = r.sym();
        j.ncv = std::min(j.n, std::max(j.ncv, rk + 5));
        j.nev = std::min(j.nev, rk - 1);
    }
    else if (variant == 1 || variant == 2)
    {
        // few distinct eigenvalues / low rank: the Krylov sequence breaks down and expand_basis() runs at (almost) every step
        const int rk = 2 + r.below(2);
        MatL U(j.n, rk);
        for (int i = 0; i < j.n; i++)
            for (int c = 0; c < rk; c++)
                U(i, c) = r.sym();
        if (gen)
        {
            MatL V(j.n, rk);
            for (int i = 0; i < j.n; i++)
                for (int c = 0; c < rk; c++)
                    V(i, c) = r.sym();
            A = U * V.transpose();
        }
        else
            A = U * U.transpose();
        j.ncv = std::min(j.n, std::max(j.ncv, rk + 4));
        j.nev = std::min(j.nev, rk);
        // norm about 5: the rounding-level residual after the exact breakdown (a few eps * ||A||) then lies between eps * sqrt(n) of the
        // small and of the large problems of the round
        A *= 5.0L / A.norm();
    }
    else
    {
        for (int i = 0; i < j.n; i++)
            for (int k = 0; k < j.n; k++)
                if (kind < 2 || r.below(100) < 20 || i == k)
                    A(i, k) = r.sym();
        if (!gen)
            A = ((A + A.transpose()) * 0.5L).eval();
    }
    j.A = A.cast<double>();
    j.As = j.A.sparseView();
    return j;
}

// The same job run ALONE in a PRISTINE process.  A server process is forked when the driver has not yet run a single solver (first
// dispatch of the process); it never runs one itself.  For every request it forks a grandchild, which therefore starts from the state
// of a process in which no solver has ever run: function-local statics (also `static const` thresholds fixed by whichever solver comes
// first), process-global generators and any other hidden state are untouched there - a fork of the driver itself would inherit them.
static bool write_all(int fd, const void* p, size_t n)
{
    const char* c = (const char*) p;
    while (n)
    {
        ssize_t w = write(fd, c, n);
        if (w <= 0)
            return false;
        c += w;
        n -= (size_t) w;
    }
    return true;
}
static bool read_all(int fd, void* p, size_t n)
{
    char* c = (char*) p;
    while (n)
    {
        ssize_t g = read(fd, c, n);
        if (g <= 0)
            return false;
        c += g;
        n -= (size_t) g;
    }
    return true;
}
struct IsoServer
{
    int to_fd, from_fd;
    bool ok;
};
static IsoServer g_iso = {-1, -1, false};

static void iso_server_loop(int in_fd, int out_fd)
{
    for (;;)
    {
        ll hdr[5];
        if (!read_all(in_fd, hdr, sizeof(hdr)))
            _exit(0);
        Job j;
        j.kind = (int) hdr[0];
        j.n = (int) hdr[1];
        j.nev = (int) hdr[2];
        j.ncv = (int) hdr[3];
        j.rule = (int) hdr[4];
        j.A.resize(j.n, j.n);
        if (!read_all(in_fd, j.A.data(), sizeof(double) * (size_t) j.n * (size_t) j.n))
            _exit(0);
        j.As = j.A.sparseView();
        ll buf[5] = {0, 0, 0, 0, 0};
        int c[2];
        if (pipe(c) == 0)
        {
            pid_t g = fork();
            if (g == 0)
            {
                close(c[0]);
                JobResult r = run_private(j);
                ll rb[4] = {r.ev, r.res, r.nevents, r.info};
                write_all(c[1], rb, sizeof(rb));
                _exit(0);
            }
            close(c[1]);
            if (g > 0 && read_all(c[0], buf, 4 * sizeof(ll)))
                buf[4] = 1;
            close(c[0]);
            int status = 0;
            if (g > 0)
                waitpid(g, &status, 0);
        }
        if (!write_all(out_fd, buf, sizeof(buf)))
            _exit(0);
    }
}

static void iso_server_start()
{
    static bool tried = false;
    if (tried)
        return;
    tried = true;
    int a[2], b[2];
    if (pipe(a) != 0 || pipe(b) != 0)
        return;
    if (out().f)
        fflush(out().f);
    pid_t pid = fork();
    if (pid < 0)
        return;
    if (pid == 0)
    {
        close(a[1]);
        close(b[0]);
        iso_server_loop(a[0], b[1]);
        _exit(0);
    }
    close(a[0]);
    close(b[1]);
    g_iso.to_fd = a[1];
    g_iso.from_fd = b[0];
    g_iso.ok = true;
}

static bool run_isolated(const Job& j, JobResult& r)
{
    if (!g_iso.ok)
        return false;
    ll hdr[5] = {j.kind, j.n, j.nev, j.ncv, j.rule};
    if (!write_all(g_iso.to_fd, hdr, sizeof(hdr)) || !write_all(g_iso.to_fd, j.A.data(), sizeof(double) * (size_t) j.n * (size_t) j.n))
        return false;
    ll buf[5];
    if (!read_all(g_iso.from_fd, buf, sizeof(buf)) || buf[4] != 1)
        return false;
    r.ev = buf[0];
    r.res = buf[1];
    r.nevents = buf[2];
    r.info = buf[3];
    return true;
}

template <typename ScalarTag>
void dispatch(const Desc& d)
{
    iso_server_start();   // before the first solver of this process runs
    {
        Line l("Reset");
        l.str("desc", d.raw);
        out().put(l);
    }
    Rng r((uint64_t) d.i("seed", 1) * 173 + 11);
    const int rounds = (int) d.i("rounds", 3);
    const int tcounts[4] = {2, 4, 8, 16};
    // two extra rounds after the scheduled ones: Lanczos solvers (dense / sparse product wrapper), private operators, breakdown-heavy jobs of
    // very different sizes in one round - hidden state whose value depends on n and is fixed by whichever solver comes first shows there
    for (int round = 0; round < rounds + 2; round++)
    {
        const bool extra = round >= rounds;
        const int T = extra ? 6 : tcounts[round % 4];
        const int shared = extra ? 0 : (round % 2);          // odd rounds: all threads share ONE const product wrapper
        const int kind = extra ? ((round - rounds) ? 2 : 0) : (round / 2) % 6;
        const int variant = extra ? 1 : ((round % 3 == 2) ? 1 : ((round % 6 == 3) ? 2 : 0));
        std::vector<Job> jobs;
        if (shared)
        {
            Job base = make_job(kind, r, variant);
            for (int t = 0; t < T; t++)
            {
                Job j = base;   // same matrix, different (nev, ncv) per thread
                j.nev = 1 + (t % 3);
                j.ncv = std::min(j.n, 2 * j.nev + 4 + (t % 5));
                if (kind >= 4)
                    j.rule = (t % 2) ? 3 : 7;
                jobs.push_back(j);
            }
        }
        else
            for (int t = 0; t < T; t++)
                jobs.push_back(make_job(kind, r, variant));
        std::vector<JobResult> con(T), seq(T);
        // concurrent execution; the shared wrapper is created fresh (never used before the threads start)
        {
            std::unique_ptr<DenseSymMatProd<double> > s0;
            std::unique_ptr<DenseGenMatProd<double> > s1;
            std::unique_ptr<SparseSymMatProd<double> > s2;
            std::unique_ptr<SparseGenMatProd<double> > s3;
            if (shared)
            {
                if (kind == 0 || kind == 4) s0.reset(new DenseSymMatProd<double>(jobs[0].A));
                if (kind == 5) s2.reset(new SparseSymMatProd<double>(jobs[0].As));
                if (kind == 1) s1.reset(new DenseGenMatProd<double>(jobs[0].A));
                if (kind == 2) s2.reset(new SparseSymMatProd<double>(jobs[0].As));
                if (kind == 3) s3.reset(new SparseGenMatProd<double>(jobs[0].As));
            }
            std::atomic<int> ready(0);
            std::atomic<bool> go(false);
            std::vector<std::thread> th;
            for (int t = 0; t < T; t++)
                th.push_back(std::thread([&, t]() {
                    ready++;
                    while (!go.load())
                        std::this_thread::yield();
                    // randomized start: a short, thread dependent spin
                    volatile unsigned spin = (unsigned) ((t * 2654435761u + round * 40503u) % 2000u);
                    while (spin)
                        spin = spin - 1;
                    if (!shared)
                        con[t] = run_private(jobs[t]);
                    else if (kind == 4)
                        con[t] = run_dav(*s0, jobs[t]);
                    else if (kind == 5)
                        con[t] = run_dav(*s2, jobs[t]);
                    else if (kind == 0)
                        { SlowOp<DenseSymMatProd<double> > w(*s0); con[t] = run_with_op<SymEigsSolver<SlowOp<DenseSymMatProd<double> > > >(w, jobs[t]); }
                    else if (kind == 1)
                        { SlowOp<DenseGenMatProd<double> > w(*s1); con[t] = run_with_op<GenEigsSolver<SlowOp<DenseGenMatProd<double> > > >(w, jobs[t]); }
                    else if (kind == 2)
                        { SlowOp<SparseSymMatProd<double> > w(*s2); con[t] = run_with_op<SymEigsSolver<SlowOp<SparseSymMatProd<double> > > >(w, jobs[t]); }
                    else
                        { SlowOp<SparseGenMatProd<double> > w(*s3); con[t] = run_with_op<GenEigsSolver<SlowOp<SparseGenMatProd<double> > > >(w, jobs[t]); }
                }));
            while (ready.load() < T)
                std::this_thread::yield();
            go.store(true);
            for (int t = 0; t < T; t++)
                th[t].join();
        }
        // the same jobs one after another (own wrapper each)
        for (int t = 0; t < T; t++)
            seq[t] = run_private(jobs[t]);
        for (int t = 0; t < T; t++)
        {
            // a third execution of a few jobs per round, alone in a fresh process
            JobResult iso = seq[t];
            int isok = -1;   // -1: not run in isolation
            if (t < 3)
                isok = run_isolated(jobs[t], iso) ? 1 : 0;
            Line l("MtJob");
            l.i("round", round).i("threads", T).i("shared", shared).i("kind", kind).i("variant", variant).i("job", t);
            l.i("seq_ev", seq[t].ev).i("con_ev", con[t].ev).i("seq_res", seq[t].res).i("con_res", con[t].res);
            l.i("seq_n", seq[t].nevents).i("con_n", con[t].nevents).i("info", seq[t].info);
            l.i("iso", isok).i("iso_ev", iso.ev).i("iso_res", iso.res).i("iso_n", iso.nevents);
            out().put(l);
        }
    }
    Line e("EndMt");
    out().put(e);
}
#define VH_ONLY 2
#include "drv_main.h"
