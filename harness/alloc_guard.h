// Heap instrumentation for the harness executables (include in exactly one translation unit):
//  - every malloc/calloc/realloc/operator new block carries a header and a tail canary; the canary is
//    verified on free, so a write past the end of a heap buffer made by the library is COUNTED
//    (vh_heap_overruns) instead of silently corrupting the heap;
//  - live block count (vh_heap_live) for leak observations.
// Aligned allocations (posix_memalign & co.) are passed through unguarded.
#ifndef VERIF_ALLOC_GUARD_H
#define VERIF_ALLOC_GUARD_H
#include <cstdlib>
#include <cstddef>
#include <cstdint>
#include <cstring>
#include <new>

// Under AddressSanitizer / ThreadSanitizer the sanitizer runtime owns malloc: no interposition, counters stay at zero
#if defined(__SANITIZE_ADDRESS__) || defined(__SANITIZE_THREAD__)
#define VH_NO_ALLOC_GUARD 1
#endif

#ifdef VH_NO_ALLOC_GUARD
static volatile long long vh_heap_live = 0;
static volatile long long vh_heap_overruns = 0;
static volatile long long vh_heap_allocs = 0;
#else
extern "C" {
void* __libc_malloc(size_t);
void __libc_free(void*);
void* __libc_calloc(size_t, size_t);
void* __libc_realloc(void*, size_t);
}

static volatile long long vh_heap_live = 0;
static volatile long long vh_heap_overruns = 0;
static volatile long long vh_heap_allocs = 0;

namespace vhguard {
static const uint64_t MAGIC = 0x5eedface0ddba11ULL;
static const size_t HDR = 16, TAIL = 16;
static const unsigned char CANARY = 0xA7;
inline void* wrap(void* raw, size_t n)
{
    if (!raw)
        return raw;
    uint64_t* h = (uint64_t*) raw;
    h[0] = MAGIC;
    h[1] = (uint64_t) n;
    unsigned char* user = (unsigned char*) raw + HDR;
    memset(user + n, CANARY, TAIL);
    __sync_fetch_and_add(&vh_heap_live, 1);
    __sync_fetch_and_add(&vh_heap_allocs, 1);
    return user;
}
inline bool guarded(void* p) { return p && ((uintptr_t) p % 16 == 0) && ((uint64_t*) ((unsigned char*) p - HDR))[0] == MAGIC; }
inline void* unwrap(void* p)
{
    unsigned char* user = (unsigned char*) p;
    uint64_t* h = (uint64_t*) (user - HDR);
    size_t n = (size_t) h[1];
    for (size_t i = 0; i < TAIL; i++)
        if (user[n + i] != CANARY)
        {
            __sync_fetch_and_add(&vh_heap_overruns, 1);
            break;
        }
    h[0] = 0;
    __sync_fetch_and_sub(&vh_heap_live, 1);
    return (void*) h;
}
}  // namespace vhguard

extern "C" {
void* malloc(size_t n) noexcept { return vhguard::wrap(__libc_malloc(n + vhguard::HDR + vhguard::TAIL), n); }
void free(void* p) noexcept
{
    if (!p)
        return;
    if (vhguard::guarded(p))
        __libc_free(vhguard::unwrap(p));
    else
        __libc_free(p);
}
void* calloc(size_t a, size_t b) noexcept
{
    size_t n = a * b;
    void* raw = __libc_calloc(1, n + vhguard::HDR + vhguard::TAIL);
    return vhguard::wrap(raw, n);
}
void* realloc(void* p, size_t n) noexcept
{
    if (!p)
        return malloc(n);
    if (!vhguard::guarded(p))
        return __libc_realloc(p, n);
    size_t old = (size_t) ((uint64_t*) ((unsigned char*) p - vhguard::HDR))[1];
    void* q = malloc(n);
    if (q)
    {
        memcpy(q, p, old < n ? old : n);
        free(p);
    }
    return q;
}
}

void* operator new(size_t n)
{
    void* p = malloc(n ? n : 1);
    if (!p)
        throw std::bad_alloc();
    return p;
}
void* operator new[](size_t n)
{
    void* p = malloc(n ? n : 1);
    if (!p)
        throw std::bad_alloc();
    return p;
}
void operator delete(void* p) noexcept { free(p); }
void operator delete[](void* p) noexcept { free(p); }
void operator delete(void* p, size_t) noexcept { free(p); }
void operator delete[](void* p, size_t) noexcept { free(p); }
#endif  // VH_NO_ALLOC_GUARD
#endif
