// Driver for C10: Bunch-Kaufman LDLT (LinAlg/BKLDLT.h) and the dense shift-solve wrappers built on it.
//   mode=exact     all symmetric integer matrices of order <= 3 over {-1,0,1,2} (order 4 over {-1,0,1}, sampled), shifts 0 / 1:
//                  status, residual, and the four storage variants (Lower/Upper x ColMajor/RowMajor)
//   mode=measured  generated families, sizes 1..80, real and complex Hermitian, shifts equal / close to diagonal entries
//   mode=protocol  solve() before compute(), wrappers' set_shift on singular / nonsingular input
#include "alloc_guard.h"
#include "vh.h"
#include "gen.h"
#include <Spectra/LinAlg/BKLDLT.h>
#include <Spectra/MatOp/DenseSymShiftSolve.h>
#include <Spectra/MatOp/SymShiftInvert.h>

using namespace vh;
using namespace Spectra;

template <typename S>
struct LDOf
{
    typedef LD type;
};
template <typename R>
struct LDOf<std::complex<R> >
{
    typedef CLD type;
};

// factorize + solve in the four storage variants; logs status, residual (long double), digests of the solutions
template <typename S>
static void solve_variants(const Eigen::Matrix<S, Eigen::Dynamic, Eigen::Dynamic>& A, typename Eigen::NumTraits<S>::Real sigma, Line& l, int tycode)
{
    typedef Eigen::Matrix<S, Eigen::Dynamic, Eigen::Dynamic> Mat;
    typedef Eigen::Matrix<S, Eigen::Dynamic, Eigen::Dynamic, Eigen::RowMajor> RMat;
    typedef Eigen::Matrix<S, Eigen::Dynamic, 1> Vec;
    typedef typename LDOf<S>::type L;
    typedef Eigen::Matrix<L, Eigen::Dynamic, Eigen::Dynamic> MatLL;
    typedef Eigen::Matrix<L, Eigen::Dynamic, 1> VecLL;
    const int n = (int) A.rows();
    Vec b(n);
    for (int i = 0; i < n; i++)
        b[i] = S((typename Eigen::NumTraits<S>::Real)(1.0 + 0.5 * ((i * 5) % 7) - (i % 3)));
    // poisoned copies: only the named triangle is valid
    Mat Alo = A, Aup = A;
    for (int i = 0; i < n; i++)
        for (int j = 0; j < n; j++)
        {
            if (i < j)
                Alo(i, j) = S(77.0);
            if (i > j)
                Aup(i, j) = S(-55.0);
        }
    RMat Rlo = Alo, Rup = Aup;
    std::vector<ll> infos, dgs, fins;
    Vec x0;
    for (int v = 0; v < 4; v++)
    {
        BKLDLT<S> f;
        if (v == 0)
            f.compute(Alo, Eigen::Lower, sigma);
        else if (v == 1)
            f.compute(Aup, Eigen::Upper, sigma);
        else if (v == 2)
            f.compute(Rlo, Eigen::Lower, sigma);
        else
            f.compute(Rup, Eigen::Upper, sigma);
        infos.push_back((ll) f.info());
        if (f.info() == CompInfo::Successful)
        {
            Vec x = f.solve(b);
            if (v == 0)
                x0 = x;
            Digest g;
            g.mat(x);
            dgs.push_back(g.word30());
            fins.push_back(all_finite(x) ? 1 : 0);
        }
        else
        {
            dgs.push_back(0);
            fins.push_back(1);
        }
    }
    l.i("ty", tycode).i("n", n).i("qn", q((LD) n)).arr("info", infos).arr("dg", dgs).arr("fin", fins);
    // residual of variant 0 in long double: ||(A - sigma I) x - b|| against ||A - sigma I|| ||x|| + ||b||
    if (infos[0] == 0)
    {
        MatLL AL = A.template cast<L>();
        for (int i = 0; i < n; i++)
            AL(i, i) -= L((LD) sigma);
        VecLL xl = x0.template cast<L>(), bl = b.template cast<L>();
        LD res = (AL * xl - bl).norm();
        LD scale = AL.norm() * xl.norm() + bl.norm();
        l.i("qres", q(res)).i("qscale", q(scale));
    }
    else
        l.i("qres", QZERO).i("qscale", 0);
}

static void mode_exact(const Desc& d)
{
    const int part = (int) d.i("part", 0), parts = (int) d.i("parts", 1);
    ll ord = 0;
    for (int n = 1; n <= 4; n++)
    {
        const int ne = n * (n + 1) / 2;
        const int na = n <= 3 ? 4 : 3;                 // alphabet {-1,0,1,2} / {-1,0,1}
        ll total = 1;
        for (int i = 0; i < ne; i++)
            total *= na;
        const ll stride = (n == 4) ? (ll) d.i("stride4", 7) : 1;
        for (ll code = 0; code < total; code += stride, ord++)
        {
            if (ord % parts != part)
                continue;
            Eigen::MatrixXd A(n, n);
            std::vector<ll> ent;
            ll c = code;
            for (int j = 0; j < n; j++)
                for (int i = j; i < n; i++)
                {
                    int v = (int) (c % na) - 1;
                    c /= na;
                    A(i, j) = A(j, i) = v;
                    ent.push_back(v);
                }
            for (int sg = 0; sg <= 1; sg++)
            {
                Line l("Bk");
                l.str("kind", "exact").i("sig", sg).arr("ent", ent);
                solve_variants<double>(A, (double) sg, l, 2);
                out().put(l);
            }
        }
    }
    Line e("EndBk");
    e.i("ord", ord);
    out().put(e);
}

template <typename T>
static Eigen::Matrix<T, Eigen::Dynamic, Eigen::Dynamic> family(const std::string& fam, int n, Rng& r)
{
    MatL A = MatL::Zero(n, n);
    if (fam == "spd")
        A = gen_spd(n, r, 10);
    else if (fam == "indef")
    {
        for (int i = 0; i < n; i++)
            for (int j = 0; j <= i; j++)
                A(i, j) = A(j, i) = r.sym();
    }
    else if (fam == "zerodiag")
    {
        for (int i = 0; i < n; i++)
            for (int j = 0; j < i; j++)
                A(i, j) = A(j, i) = r.sym();
    }
    else if (fam == "antidiag")
    {
        // [0 1; 1 0]-like: ones on the anti-diagonal (plus small noise off it for n > 2)
        for (int i = 0; i < n; i++)
            A(i, n - 1 - i) = 1;
    }
    else if (fam == "blockdiag")
    {
        for (int i = 0; i + 1 < n; i += 2)
        {
            A(i, i) = r.sym() * 0.1;
            A(i + 1, i + 1) = r.sym() * 0.1;
            A(i, i + 1) = A(i + 1, i) = 1.0L + r.uni();
        }
        if (n % 2)
            A(n - 1, n - 1) = 2;
    }
    else if (fam == "graded")
    {
        for (int i = 0; i < n; i++)
            for (int j = 0; j <= i; j++)
                A(i, j) = A(j, i) = r.sym() * std::pow(2.0L, -(LD)(i + j) * 20.0L / (LD) n);
        for (int i = 0; i < n; i++)
            A(i, i) += std::pow(2.0L, -(LD)(2 * i) * 20.0L / (LD) n);
    }
    else if (fam == "integer")
    {
        for (int i = 0; i < n; i++)
            for (int j = 0; j <= i; j++)
                A(i, j) = A(j, i) = (LD)(r.below(7) - 3);
    }
    else if (fam == "trap")
    {
        // block diagonal of graded pivot traps [[0,1,0],[1,1,M],[0,M,M or 1]], M = 10^2..10^7 (exactly representable): the zero
        // diagonal entry has its column maximum 1 in a row that holds the huge entry M; accepting a_rr = 1 as a 1x1 pivot because
        // it passes alpha*lambda (instead of alpha*sigma) gives element growth M
        for (int b = 0; b + 2 < n; b += 3)
        {
            const LD M = std::pow(10.0L, (LD)(2 + r.below(sizeof(T) == 4 ? 4 : 6)));
            A(b, b + 1) = A(b + 1, b) = 1;
            A(b + 1, b + 1) = 1;
            A(b + 1, b + 2) = A(b + 2, b + 1) = M;
            A(b + 2, b + 2) = r.below(2) ? M : 1.0L;
        }
        for (int i = (n / 3) * 3; i < n; i++)
            A(i, i) = 2;
    }
    else
    {
        // "bk3": a pivot with a small diagonal next to a large off-diagonal and a large diagonal further on: exercises
        // every branch of the pivot selection
        for (int i = 0; i < n; i++)
            for (int j = 0; j <= i; j++)
                A(i, j) = A(j, i) = (i == j) ? ((i % 3 == 0) ? 0.5L * r.uni() : 2.0L + r.uni()) : ((i - j == 1) ? 1.0L + 0.2L * r.sym() : 0.05L * r.sym());
    }
    return A.cast<T>();
}

template <typename T>
static void measured_real(const Desc& d, int tycode)
{
    typedef Eigen::Matrix<T, Eigen::Dynamic, Eigen::Dynamic> Mat;
    Rng r((uint64_t) d.i("seed", 1) * 1231 + tycode);
    const char* fams[9] = {"spd", "indef", "zerodiag", "antidiag", "blockdiag", "graded", "integer", "bk3", "trap"};
    const int count = (int) d.i("count", 200);
    for (int t = 0; t < count; t++)
    {
        const std::string fam = fams[t % 9];
        int n = 1 + r.below((int) d.i("nmax", 80));
        if (t % 11 == 0)
            n = 1 + r.below(4);
        if (fam == "trap")
            n = 3 * (1 + r.below(4));
        Mat A = family<T>(fam, n, r);
        T sigma = 0;
        int sk = fam == "trap" ? 0 : r.below(4);
        if (sk == 1)
            sigma = (T) r.sym();
        else if (sk == 2)
            sigma = A(r.below(n), r.below(n) % n);                 // equal to an entry (often a diagonal entry)
        else if (sk == 3)
            sigma = A(0, 0) + (T) (1e-6 * r.sym());                // close to a diagonal entry
        // keep the shifted matrix nonsingular: judged only when the long double condition estimate is moderate
        MatL S = A.template cast<LD>();
        for (int i = 0; i < n; i++)
            S(i, i) -= (LD) sigma;
        Eigen::FullPivLU<MatL> lu(S);
        LD cond = lu.isInvertible() ? S.norm() * lu.inverse().norm() : -1;
        Line l("Bk");
        l.str("kind", "meas").str("fam", fam).i("qcond", cond > 0 ? q(cond) : QNAN);
        solve_variants<T>(A, sigma, l, tycode);
        out().put(l);
    }
}

template <typename T>
static void measured_cplx(const Desc& d, int tycode)
{
    typedef std::complex<T> C;
    typedef Eigen::Matrix<C, Eigen::Dynamic, Eigen::Dynamic> Mat;
    Rng r((uint64_t) d.i("seed", 1) * 977 + tycode);
    const int count = (int) d.i("ccount", 60);
    for (int t = 0; t < count; t++)
    {
        int n = 1 + r.below((int) d.i("nmax", 80) / 2);
        Mat A(n, n);
        for (int i = 0; i < n; i++)
            for (int j = 0; j <= i; j++)
            {
                C v((T) r.sym(), i == j ? T(0) : (T) r.sym());
                if (t % 3 == 0 && i == j)
                    v = C(0, 0);   // zero diagonal
                A(i, j) = v;
                A(j, i) = std::conj(v);
            }
        T sigma = (t % 2) ? (T) r.sym() : T(0);
        CMatL S = A.template cast<CLD>();
        for (int i = 0; i < n; i++)
            S(i, i) -= CLD((LD) sigma, 0);
        Eigen::FullPivLU<CMatL> lu(S);
        LD cond = lu.isInvertible() ? S.norm() * lu.inverse().norm() : -1;
        Line l("Bk");
        l.str("kind", "meas").str("fam", "herm").i("qcond", cond > 0 ? q(cond) : QNAN);
        solve_variants<C>(A, sigma, l, tycode);
        out().put(l);
    }
}

static void mode_protocol()
{
    // solve() before compute(): logic_error
    {
        BKLDLT<double> f;
        Eigen::VectorXd b = Eigen::VectorXd::Ones(3);
        int outc = 0;
        try
        {
            Eigen::VectorXd x = f.solve(b);
        }
        catch (const std::logic_error&)
        {
            outc = 1;
        }
        catch (...)
        {
            outc = 2;
        }
        Line l("BkProto");
        l.str("what", "solve_before_compute").i("out", outc).i("info", (ll) f.info());
        out().put(l);
    }
    // non-square input
    {
        Eigen::MatrixXd A = Eigen::MatrixXd::Ones(2, 3);
        int outc = 0;
        try
        {
            BKLDLT<double> f(A);
        }
        catch (const std::invalid_argument&)
        {
            outc = 1;
        }
        catch (...)
        {
            outc = 2;
        }
        Line l("BkProto");
        l.str("what", "nonsquare").i("out", outc).i("info", 1);
        out().put(l);
    }
    // wrappers: set_shift throws iff the factorization reports a problem; sizes 1..4, singular and nonsingular shifts
    for (int n = 1; n <= 4; n++)
    {
        Eigen::MatrixXd A = Eigen::MatrixXd::Zero(n, n);
        for (int i = 0; i < n; i++)
            A(i, i) = 2.0 + i;
        Eigen::MatrixXd B = Eigen::MatrixXd::Identity(n, n);
        for (int sg = 0; sg < 2; sg++)
        {
            // sg = 0: shift 0.5 (nonsingular); sg = 1: shift 2 = A(0,0) with a diagonal matrix: exactly singular
            double sigma = sg ? 2.0 : 0.5;
            {
                DenseSymShiftSolve<double> op(A);
                int outc = 0;
                try
                {
                    op.set_shift(sigma);
                }
                catch (const std::invalid_argument&)
                {
                    outc = 1;
                }
                catch (...)
                {
                    outc = 2;
                }
                Line l("BkProto");
                l.str("what", "DenseSymShiftSolve").i("n", n).i("singular", sg).i("out", outc).i("info", 0);
                out().put(l);
            }
            {
                SymShiftInvert<double, Eigen::Dense, Eigen::Dense> op(A, B);
                int outc = 0;
                try
                {
                    op.set_shift(sigma);
                }
                catch (const std::invalid_argument&)
                {
                    outc = 1;
                }
                catch (...)
                {
                    outc = 2;
                }
                Line l("BkProto");
                l.str("what", "SymShiftInvert").i("n", n).i("singular", sg).i("out", outc).i("info", 0);
                out().put(l);
            }
        }
    }
    // recompute on the same object: the second factorization must not depend on the first (pivot lists reset)
    {
        Rng r(5);
        Eigen::MatrixXd A1 = family<double>("zerodiag", 9, r), A2 = family<double>("indef", 9, r);
        Eigen::VectorXd b = Eigen::VectorXd::LinSpaced(9, 1.0, 2.0);
        BKLDLT<double> reused(A1);
        reused.compute(A2, Eigen::Lower, 0.3);
        BKLDLT<double> fresh(A2, Eigen::Lower, 0.3);
        Eigen::VectorXd x1 = reused.solve(b), x2 = fresh.solve(b);
        Digest g1, g2;
        g1.mat(x1);
        g2.mat(x2);
        Line l("BkProto");
        l.str("what", "recompute").i("out", g1.word30() == g2.word30() ? 0 : 1).i("info", (ll) reused.info());
        out().put(l);
    }
}

template <typename T>
void dispatch(const Desc& d)
{
    {
        Line l("Reset");
        l.str("desc", d.raw);
        out().put(l);
    }
    const std::string mode = d.s("mode");
    if (mode == "exact")
        mode_exact(d);
    else if (mode == "measured")
    {
        measured_real<float>(d, 1);
        measured_real<double>(d, 2);
        measured_real<long double>(d, 3);
        measured_cplx<double>(d, 12);
        measured_cplx<float>(d, 11);
    }
    else if (mode == "protocol")
        mode_protocol();
    else
        exit(3);
}
#define VH_ONLY 2
#include "drv_main.h"
