// Driver for C11: the matrix-operation wrappers in every template configuration.
// Every case uses small INTEGER matrices/vectors (exactly representable), with the triangle a wrapper is told not to read
// filled with poison values.  Products are logged as integers and checked bit-exactly by the specification (MatOp.tla
// computes Sym(A,uplo)*x itself); solves are logged with the measured residual of their defining equation, the condition
// number, and a digest that must not depend on the poison values.
#include "alloc_guard.h"
#include "vh.h"
#include "gen.h"
#include <memory>
#include <type_traits>
#include <Spectra/MatOp/DenseGenMatProd.h>
#include <Spectra/MatOp/DenseSymMatProd.h>
#include <Spectra/MatOp/DenseHermMatProd.h>
#include <Spectra/MatOp/SparseGenMatProd.h>
#include <Spectra/MatOp/SparseSymMatProd.h>
#include <Spectra/MatOp/SparseHermMatProd.h>
#include <Spectra/MatOp/DenseSymShiftSolve.h>
#include <Spectra/MatOp/SparseSymShiftSolve.h>
#include <Spectra/MatOp/DenseGenRealShiftSolve.h>
#include <Spectra/MatOp/SparseGenRealShiftSolve.h>
#include <Spectra/MatOp/DenseGenComplexShiftSolve.h>
#include <Spectra/MatOp/SparseGenComplexShiftSolve.h>
#include <Spectra/MatOp/DenseCholesky.h>
#include <Spectra/MatOp/SparseCholesky.h>
#include <Spectra/MatOp/SparseRegularInverse.h>
#include <Spectra/MatOp/SymShiftInvert.h>
#include <Spectra/MatOp/internal/SymGEigsCayleyOp.h>
#include <Spectra/MatOp/internal/SymGEigsShiftInvertOp.h>
#include <Spectra/MatOp/internal/SymGEigsBucklingOp.h>
#include <Spectra/MatOp/internal/SymGEigsCholeskyOp.h>
#include <Spectra/MatOp/internal/SymGEigsRegInvOp.h>

using namespace vh;
using namespace Spectra;

static const int LO = Eigen::Lower, UP = Eigen::Upper, CM = Eigen::ColMajor, RM = Eigen::RowMajor;

// integer test data -------------------------------------------------------------------------------------------------
struct Data
{
    int n;
    Eigen::MatrixXi S;    // symmetric integer matrix (the mathematical operand)
    Eigen::MatrixXi G;    // general integer matrix
    Eigen::MatrixXi P;    // SPD integer matrix (diagonally dominant)
    Eigen::VectorXi x;
};
static Data make_data(int n, Rng& r)
{
    Data d;
    d.n = n;
    d.S = Eigen::MatrixXi::Zero(n, n);
    d.G = Eigen::MatrixXi::Zero(n, n);
    d.P = Eigen::MatrixXi::Zero(n, n);
    d.x.resize(n);
    for (int i = 0; i < n; i++)
    {
        d.x[i] = r.below(7) - 3;
        for (int j = 0; j < n; j++)
            d.G(i, j) = r.below(9) - 4;
        for (int j = 0; j <= i; j++)
        {
            int v = r.below(9) - 4;
            d.S(i, j) = d.S(j, i) = v;
            int w = (i == j) ? 0 : r.below(3) - 1;
            d.P(i, j) = d.P(j, i) = w;
        }
    }
    for (int i = 0; i < n; i++)
        d.P(i, i) = n + 2 + r.below(3);
    return d;
}
// the matrix handed to a wrapper that reads triangle `uplo`: the other triangle is poison (variant selects the poison values)
template <typename Mat>
static Mat poisoned(const Eigen::MatrixXi& S, int uplo, int variant)
{
    typedef typename Mat::Scalar Sc;
    const int n = (int) S.rows();
    Mat A(n, n);
    for (int i = 0; i < n; i++)
        for (int j = 0; j < n; j++)
        {
            bool lower = i >= j;
            bool valid = (uplo == LO) ? lower : (i <= j);
            A(i, j) = valid ? Sc((double) S(i, j)) : Sc((double) (variant ? 91 + i - 2 * j : -37 - 3 * i + j));
        }
    return A;
}
static std::vector<ll> ivec(const Eigen::MatrixXi& M)
{
    std::vector<ll> v;
    for (int j = 0; j < M.cols(); j++)
        for (int i = 0; i < M.rows(); i++)
            v.push_back(M(i, j));
    return v;
}
template <typename V>
static std::vector<ll> exact_ints(const V& y, int& nonint)
{
    std::vector<ll> v;
    nonint = 0;
    for (int i = 0; i < (int) y.size(); i++)
    {
        LD re = (LD) Eigen::numext::real(y[i]);
        ll k = (ll) std::llround(re);
        if ((LD) k != re || Eigen::numext::imag(y[i]) != 0)
            nonint = 1;
        v.push_back(k);
    }
    return v;
}

// ---- products: exact ----------------------------------------------------------------------------------------------
template <typename W, typename Mat, typename Sc>
static void prod_row(const char* w, const char* store, int uplo, int flags, const char* si, int tycode, const Eigen::MatrixXi& M, bool sym, const Data& d, const char* how)
{
    typedef Eigen::Matrix<Sc, Eigen::Dynamic, 1> Vec;
    Vec x(d.n), y(d.n);
    for (int i = 0; i < d.n; i++)
        x[i] = Sc((double) d.x[i]);
    Mat A = sym ? poisoned<Mat>(M, uplo, 0) : Mat(M.cast<double>().template cast<Sc>());
    W op(A);
    op.perform_op(x.data(), y.data());
    int nonint = 0;
    std::vector<ll> yi = exact_ints(y, nonint);
    // operator* / operator() interface needed by the Davidson solver, where present, is exercised by the C15 driver
    Line l("Prod");
    l.str("w", w).str("st", store).i("uplo", uplo == UP ? 1 : 0).i("rm", flags == RM ? 1 : 0).str("si", si).i("ty", tycode).i("sym", sym ? 1 : 0);
    l.str("how", how).i("n", d.n).arr("a", ivec(M)).arr("x", ivec(d.x)).arr("y", yi).i("nonint", nonint);
    l.i("rows", (ll) op.rows()).i("cols", (ll) op.cols());
    out().put(l);
    // the block product operator* (the interface the Davidson solver uses): first column of op * [x, 2x]
    {
        Mat X(d.n, 2);
        X.col(0) = x;
        X.col(1) = Sc(2) * x;
        Mat Y = op * X;
        Vec y0 = Y.col(0);
        int nonint2 = 0;
        std::vector<ll> yi2 = exact_ints(y0, nonint2);
        Vec y1 = Y.col(1) - Sc(2) * y0;
        Line b("Prod");
        b.str("w", w).str("st", store).i("uplo", uplo == UP ? 1 : 0).i("rm", flags == RM ? 1 : 0).str("si", si).i("ty", tycode).i("sym", sym ? 1 : 0);
        b.str("how", "block").i("n", d.n).arr("a", ivec(M)).arr("x", ivec(d.x)).arr("y", yi2).i("nonint", nonint2 + (y1.cwiseAbs().maxCoeff() != 0 ? 1 : 0));
        b.i("rows", (ll) Y.rows()).i("cols", (ll) d.n);
        out().put(b);
    }
}

template <typename Sc, int Uplo, int Flags>
static void dense_sym_prod(const Data& d, int tycode)
{
    typedef Eigen::Matrix<Sc, Eigen::Dynamic, Eigen::Dynamic, Flags> Mat;
    prod_row<DenseSymMatProd<Sc, Uplo, Flags>, Mat, Sc>("DenseSymMatProd", "dense", Uplo, Flags, "-", tycode, d.S, true, d, "plain");
}
template <typename Sc, int Flags>
static void dense_gen_prod(const Data& d, int tycode)
{
    typedef Eigen::Matrix<Sc, Eigen::Dynamic, Eigen::Dynamic, Flags> Mat;
    prod_row<DenseGenMatProd<Sc, Flags>, Mat, Sc>("DenseGenMatProd", "dense", LO, Flags, "-", tycode, d.G, false, d, "plain");
}
template <typename Sc, int Uplo, int Flags, typename SI>
static void sparse_sym_prod(const Data& d, int tycode, const char* si)
{
    typedef Eigen::Matrix<Sc, Eigen::Dynamic, 1> Vec;
    typedef Eigen::Matrix<Sc, Eigen::Dynamic, Eigen::Dynamic> Mat;
    typedef Eigen::SparseMatrix<Sc, Flags, SI> SpMat;
    Mat A = poisoned<Mat>(d.S, Uplo, 0);
    SpMat As = A.sparseView();
    SparseSymMatProd<Sc, Uplo, Flags, SI> op(As);
    Vec x(d.n), y(d.n);
    for (int i = 0; i < d.n; i++)
        x[i] = Sc((double) d.x[i]);
    op.perform_op(x.data(), y.data());
    int nonint = 0;
    std::vector<ll> yi = exact_ints(y, nonint);
    Line l("Prod");
    l.str("w", "SparseSymMatProd").str("st", "sparse").i("uplo", Uplo == UP ? 1 : 0).i("rm", Flags == RM ? 1 : 0).str("si", si).i("ty", tycode).i("sym", 1);
    l.str("how", "plain").i("n", d.n).arr("a", ivec(d.S)).arr("x", ivec(d.x)).arr("y", yi).i("nonint", nonint).i("rows", (ll) op.rows()).i("cols", (ll) op.cols());
    out().put(l);
    // the block product operator* (the interface the Davidson solver uses): first column of op * [x, 2x]
    {
        Mat X(d.n, 2);
        X.col(0) = x;
        X.col(1) = Sc(2) * x;
        Mat Y = op * X;
        Vec y0 = Y.col(0);
        int nonint2 = 0;
        std::vector<ll> yi2 = exact_ints(y0, nonint2);
        Vec y1 = Y.col(1) - Sc(2) * y0;
        Line b("Prod");
        b.str("w", "SparseSymMatProd").str("st", "sparse").i("uplo", Uplo == UP ? 1 : 0).i("rm", Flags == RM ? 1 : 0).str("si", si).i("ty", tycode).i("sym", 1);
        b.str("how", "block").i("n", d.n).arr("a", ivec(d.S)).arr("x", ivec(d.x)).arr("y", yi2).i("nonint", nonint2 + (y1.cwiseAbs().maxCoeff() != 0 ? 1 : 0)).i("rows", (ll) Y.rows()).i("cols", (ll) d.n);
        out().put(b);
    }
}
template <typename Sc, int Flags, typename SI>
static void sparse_gen_prod(const Data& d, int tycode, const char* si)
{
    typedef Eigen::Matrix<Sc, Eigen::Dynamic, 1> Vec;
    typedef Eigen::Matrix<Sc, Eigen::Dynamic, Eigen::Dynamic> Mat;
    typedef Eigen::SparseMatrix<Sc, Flags, SI> SpMat;
    Mat A = d.G.cast<double>().template cast<Sc>();
    SpMat As = A.sparseView();
    SparseGenMatProd<Sc, Flags, SI> op(As);
    Vec x(d.n), y(d.n);
    for (int i = 0; i < d.n; i++)
        x[i] = Sc((double) d.x[i]);
    op.perform_op(x.data(), y.data());
    int nonint = 0;
    std::vector<ll> yi = exact_ints(y, nonint);
    Line l("Prod");
    l.str("w", "SparseGenMatProd").str("st", "sparse").i("uplo", 0).i("rm", Flags == RM ? 1 : 0).str("si", si).i("ty", tycode).i("sym", 0);
    l.str("how", "plain").i("n", d.n).arr("a", ivec(d.G)).arr("x", ivec(d.x)).arr("y", yi).i("nonint", nonint).i("rows", (ll) op.rows()).i("cols", (ll) op.cols());
    out().put(l);
}
// Hermitian products: A = S + i K with K integer skew-symmetric; x real integer: (A x) has integer real and imaginary parts
template <int Uplo, int Flags, bool Sparse>
static void herm_prod(const Data& d, Rng& r)
{
    typedef std::complex<double> C;
    typedef Eigen::Matrix<C, Eigen::Dynamic, Eigen::Dynamic, Flags> Mat;
    typedef Eigen::Matrix<C, Eigen::Dynamic, 1> Vec;
    const int n = d.n;
    Eigen::MatrixXi K = Eigen::MatrixXi::Zero(n, n);
    for (int i = 0; i < n; i++)
        for (int j = 0; j < i; j++)
        {
            K(i, j) = r.below(5) - 2;
            K(j, i) = -K(i, j);
        }
    Mat A(n, n);
    for (int i = 0; i < n; i++)
        for (int j = 0; j < n; j++)
        {
            bool valid = (Uplo == LO) ? (i >= j) : (i <= j);
            A(i, j) = valid ? C((double) d.S(i, j), (double) K(i, j)) : C(55.0 + i, -44.0 - j);
        }
    Vec x(n), y(n);
    for (int i = 0; i < n; i++)
        x[i] = C((double) d.x[i], 0.0);
    if (Sparse)
    {
        Eigen::SparseMatrix<C, Flags> As = A.sparseView();
        SparseHermMatProd<C, Uplo, Flags> op(As);
        op.perform_op(x.data(), y.data());
    }
    else
    {
        DenseHermMatProd<C, Uplo, Flags> op(A);
        op.perform_op(x.data(), y.data());
    }
    std::vector<ll> yr, yim;
    int nonint = 0;
    for (int i = 0; i < n; i++)
    {
        ll a = (ll) std::llround(y[i].real()), b = (ll) std::llround(y[i].imag());
        if ((double) a != y[i].real() || (double) b != y[i].imag())
            nonint = 1;
        yr.push_back(a);
        yim.push_back(b);
    }
    Line l("HProd");
    l.str("w", Sparse ? "SparseHermMatProd" : "DenseHermMatProd").str("st", Sparse ? "sparse" : "dense").i("uplo", Uplo == UP ? 1 : 0).i("rm", Flags == RM ? 1 : 0).str("si", "-").i("ty", 12);
    l.i("n", n).arr("a", ivec(d.S)).arr("k", ivec(K)).arr("x", ivec(d.x)).arr("yr", yr).arr("yi", yim).i("nonint", nonint);
    out().put(l);
}

// ---- solves: measured residual of the defining equation + poison independence ----------------------------------------
struct SolveLog
{
    LD res, scale, cond;
    ll dg0, dg1;
    int fin;
};
static void solve_row(const char* w, const char* st, int uplo, int rm, const char* si, int tycode, const char* opname, int n, const SolveLog& s, const char* cfgx = "-")
{
    Line l("Solve");
    l.str("w", w).str("st", st).i("uplo", uplo).i("rm", rm).str("si", si).i("ty", tycode).str("op", opname).str("cx", cfgx);
    l.i("n", n).i("qn", q((LD) n)).i("qres", q(s.res)).i("qscale", q(s.scale)).i("qcond", q(s.cond)).i("dg0", s.dg0).i("dg1", s.dg1).i("fin", s.fin);
    out().put(l);
}
// generic helper: run `apply(variant)` for the two poison variants, compare digests, measure residual against M y = x
template <typename Sc, typename F>
static SolveLog run_solve(int n, const MatL& M, const VecL& xl, F apply)
{
    typedef Eigen::Matrix<Sc, Eigen::Dynamic, 1> Vec;
    SolveLog s;
    Vec y0 = apply(0), y1 = apply(1);
    Digest g0, g1;
    g0.mat(y0);
    g1.mat(y1);
    s.dg0 = g0.word30();
    s.dg1 = g1.word30();
    VecL yl = y0.template cast<LD>();
    s.res = (M * yl - xl).norm();
    s.scale = M.norm() * yl.norm() + xl.norm();
    s.cond = M.norm() * M.inverse().norm();
    s.fin = all_finite(y0) ? 1 : 0;
    (void) n;
    return s;
}

template <typename Sc, int Uplo, int Flags>
static void dense_sym_shift(const Data& d, int tycode, double sigma, bool strict = false)
{
    typedef Eigen::Matrix<Sc, Eigen::Dynamic, Eigen::Dynamic, Flags> Mat;
    typedef Eigen::Matrix<Sc, Eigen::Dynamic, 1> Vec;
    const int n = d.n;
    MatL M = d.S.cast<LD>() - (LD) (Sc) sigma * MatL::Identity(n, n);
    VecL xl = d.x.cast<LD>();
    SolveLog s = run_solve<Sc>(n, M, xl, [&](int variant) {
        Mat A = poisoned<Mat>(d.S, Uplo, variant);
        DenseSymShiftSolve<Sc, Uplo, Flags> op(A);
        Vec x = d.x.cast<double>().template cast<Sc>(), y(n);
        try
        {
            op.set_shift((Sc) (sigma + 1.25));   // an earlier factorization on the same object must leave no trace
            op.set_shift((Sc) sigma);
            op.perform_op(x.data(), y.data());
        }
        catch (const std::exception&)
        {
            // the shifted matrix is nonsingular by construction: a rejected factorization is logged as a non-finite result
            y.setConstant(std::numeric_limits<typename Eigen::NumTraits<Sc>::Real>::quiet_NaN());
        }
        return y;
    });
    // strict: the residual is judged as a BACKWARD error (no condition-number allowance): graded "pivot trap" inputs
    if (strict)
        s.cond = 1;
    solve_row("DenseSymShiftSolve", "dense", Uplo == UP, Flags == RM, "-", tycode, "shiftsolve", n, s);
    // the same matrix handed over as a block of a bigger matrix and as a Map with an outer stride (non-contiguous columns / rows)
    {
        SolveLog sb = run_solve<Sc>(n, M, xl, [&](int variant) {
            Mat A = poisoned<Mat>(d.S, Uplo, variant);
            Mat big = Mat::Constant(n + 3, n + 4, Sc(123));
            big.block(1, 2, n, n) = A;
            DenseSymShiftSolve<Sc, Uplo, Flags> op(big.block(1, 2, n, n));
            Vec x = d.x.cast<double>().template cast<Sc>(), y(n);
            op.set_shift((Sc) sigma);
            op.perform_op(x.data(), y.data());
            return y;
        });
        if (strict)
            sb.cond = 1;
        solve_row("DenseSymShiftSolve", "dense", Uplo == UP, Flags == RM, "-", tycode, "shiftsolve", n, sb, "block");
        SolveLog sm = run_solve<Sc>(n, M, xl, [&](int variant) {
            Mat A = poisoned<Mat>(d.S, Uplo, variant);
            Mat big = Mat::Constant(n + 2, n + 2, Sc(77));
            big.topLeftCorner(n, n) = A;
            Eigen::Map<const Mat, 0, Eigen::OuterStride<> > mp(big.data(), n, n, Eigen::OuterStride<>(n + 2));
            DenseSymShiftSolve<Sc, Uplo, Flags> op(mp);
            Vec x = d.x.cast<double>().template cast<Sc>(), y(n);
            op.set_shift((Sc) sigma);
            op.perform_op(x.data(), y.data());
            return y;
        });
        if (strict)
            sm.cond = 1;
        solve_row("DenseSymShiftSolve", "dense", Uplo == UP, Flags == RM, "-", tycode, "shiftsolve", n, sm, "stridedmap");
    }
}
template <typename Sc, int Uplo, int Flags, typename SI>
static void sparse_sym_shift(const Data& d, int tycode, double sigma, const char* si)
{
    typedef Eigen::Matrix<Sc, Eigen::Dynamic, Eigen::Dynamic> Mat;
    typedef Eigen::Matrix<Sc, Eigen::Dynamic, 1> Vec;
    const int n = d.n;
    MatL M = d.S.cast<LD>() - (LD) (Sc) sigma * MatL::Identity(n, n);
    VecL xl = d.x.cast<LD>();
    SolveLog s = run_solve<Sc>(n, M, xl, [&](int variant) {
        Mat A = poisoned<Mat>(d.S, Uplo, variant);
        Eigen::SparseMatrix<Sc, Flags, SI> As = A.sparseView();
        SparseSymShiftSolve<Sc, Uplo, Flags, SI> op(As);
        op.set_shift((Sc) (sigma + 1.25));
        op.set_shift((Sc) sigma);
        Vec x = d.x.cast<double>().template cast<Sc>(), y(n);
        op.perform_op(x.data(), y.data());
        return y;
    });
    solve_row("SparseSymShiftSolve", "sparse", Uplo == UP, Flags == RM, si, tycode, "shiftsolve", n, s);
}
template <typename Sc, int Flags, bool Sparse, typename SI>
static void gen_real_shift(const Data& d, int tycode, double sigma, const char* si)
{
    typedef Eigen::Matrix<Sc, Eigen::Dynamic, Eigen::Dynamic, Flags> Mat;
    typedef Eigen::Matrix<Sc, Eigen::Dynamic, 1> Vec;
    const int n = d.n;
    MatL M = d.G.cast<LD>() - (LD) (Sc) sigma * MatL::Identity(n, n);
    VecL xl = d.x.cast<LD>();
    SolveLog s = run_solve<Sc>(n, M, xl, [&](int) {
        Mat A = d.G.cast<double>().template cast<Sc>();
        Vec x = d.x.cast<double>().template cast<Sc>(), y(n);
        if (Sparse)
        {
            Eigen::SparseMatrix<Sc, Flags, SI> As = A.sparseView();
            SparseGenRealShiftSolve<Sc, Flags, SI> op(As);
            op.set_shift((Sc) (sigma + 1.25));
            op.set_shift((Sc) sigma);
            op.perform_op(x.data(), y.data());
        }
        else
        {
            DenseGenRealShiftSolve<Sc, Flags> op(A);
            op.set_shift((Sc) (sigma + 1.25));
            op.set_shift((Sc) sigma);
            op.perform_op(x.data(), y.data());
        }
        return y;
    });
    solve_row(Sparse ? "SparseGenRealShiftSolve" : "DenseGenRealShiftSolve", Sparse ? "sparse" : "dense", 0, Flags == RM, si, tycode, "shiftsolve", n, s);
}
// Re[(A - sigma I)^{-1} x] for complex sigma: residual against the real-part operator formed in long double
template <typename Sc, int Flags, bool Sparse, typename SI>
static void gen_complex_shift(const Data& d, int tycode, double sr, double si_, const char* si)
{
    typedef Eigen::Matrix<Sc, Eigen::Dynamic, Eigen::Dynamic, Flags> Mat;
    typedef Eigen::Matrix<Sc, Eigen::Dynamic, 1> Vec;
    const int n = d.n;
    // the shift in force at the end of the history below is (sr, sr): same real part as the one before it, imaginary part equal to the real part
    CMatL Mc = d.G.cast<LD>().cast<CLD>() - CLD((LD) (Sc) sr, (LD) (Sc) sr) * CMatL::Identity(n, n);
    CMatL Mi = Mc.inverse();
    MatL R = Mi.real();
    VecL xl = d.x.cast<LD>();
    Mat A = d.G.cast<double>().template cast<Sc>();
    Vec x = d.x.cast<double>().template cast<Sc>(), y(n);
    if (Sparse)
    {
        Eigen::SparseMatrix<Sc, Flags, SI> As = A.sparseView();
        SparseGenComplexShiftSolve<Sc, Flags, SI> op(As);
        op.set_shift((Sc) (sr + 1), (Sc) si_);
        op.set_shift((Sc) sr, (Sc) si_);
        op.set_shift((Sc) sr, (Sc) sr);
        op.perform_op(x.data(), y.data());
    }
    else
    {
        DenseGenComplexShiftSolve<Sc, Flags> op(A);
        // earlier shifts on the same object must leave no trace
        op.set_shift((Sc) (sr + 1), (Sc) si_);
        op.set_shift((Sc) sr, (Sc) si_);
        op.set_shift((Sc) sr, (Sc) sr);
        op.perform_op(x.data(), y.data());
    }
    SolveLog s;
    VecL yl = y.template cast<LD>();
    s.res = (yl - R * xl).norm();
    s.scale = R.norm() * xl.norm();
    s.cond = Mc.norm() * Mi.norm();
    Digest g;
    g.mat(y);
    s.dg0 = s.dg1 = g.word30();
    s.fin = all_finite(y) ? 1 : 0;
    solve_row(Sparse ? "SparseGenComplexShiftSolve" : "DenseGenComplexShiftSolve", Sparse ? "sparse" : "dense", 0, Flags == RM, si, tycode, "reshiftsolve", n, s);
}
// Cholesky wrappers: L^{-1} x and L^{-T} x with B = L L'; judged through the identities  L (L^{-1}x) = x  <=>  B (L^{-T} L^{-1} x) = x
template <typename Sc, int Uplo, int Flags, bool Sparse, typename SI>
static void cholesky(const Data& d, int tycode, const char* si)
{
    typedef Eigen::Matrix<Sc, Eigen::Dynamic, Eigen::Dynamic, Flags> Mat;
    typedef Eigen::Matrix<Sc, Eigen::Dynamic, Eigen::Dynamic> CMat;
    typedef Eigen::Matrix<Sc, Eigen::Dynamic, 1> Vec;
    const int n = d.n;
    MatL B = d.P.cast<LD>();
    VecL xl = d.x.cast<LD>();
    // z = L^{-T} L^{-1} x  must solve B z = x ; also ||L^{-1}x||^2 = x' B^{-1} x (checks the lower solve on its own)
    LD lowdev = 0;
    SolveLog s = run_solve<Sc>(n, B, xl, [&](int variant) {
        Vec x = d.x.cast<double>().template cast<Sc>(), t(n), z(n);
        if (Sparse)
        {
            CMat A = poisoned<CMat>(d.P, Uplo, variant);
            Eigen::SparseMatrix<Sc, Flags, SI> As = A.sparseView();
            SparseCholesky<Sc, Uplo, Flags, SI> op(As);
            op.lower_triangular_solve(x.data(), t.data());
            op.upper_triangular_solve(t.data(), z.data());
        }
        else
        {
            Mat A = poisoned<Mat>(d.P, Uplo, variant);
            DenseCholesky<Sc, Uplo, Flags> op(A);
            op.lower_triangular_solve(x.data(), t.data());
            op.upper_triangular_solve(t.data(), z.data());
        }
        LD want = (xl.transpose() * B.inverse() * xl)(0, 0);
        LD got = t.template cast<LD>().squaredNorm();
        lowdev = std::max(lowdev, std::fabs(got - want) / std::max((LD) 1e-300L, std::fabs(want)));
        return z;
    });
    s.res = std::max(s.res, lowdev * s.scale);
    solve_row(Sparse ? "SparseCholesky" : "DenseCholesky", Sparse ? "sparse" : "dense", Uplo == UP, Flags == RM, si, tycode, "cholsolves", n, s);
}
template <typename Sc, int Uplo, int Flags, typename SI>
static void reg_inverse(const Data& d, int tycode, const char* si)
{
    typedef Eigen::Matrix<Sc, Eigen::Dynamic, Eigen::Dynamic> Mat;
    typedef Eigen::Matrix<Sc, Eigen::Dynamic, 1> Vec;
    const int n = d.n;
    MatL B = d.P.cast<LD>();
    VecL xl = d.x.cast<LD>();
    // solve: B y = x
    SolveLog s = run_solve<Sc>(n, B, xl, [&](int variant) {
        Mat A = poisoned<Mat>(d.P, Uplo, variant);
        Eigen::SparseMatrix<Sc, Flags, SI> As = A.sparseView();
        SparseRegularInverse<Sc, Uplo, Flags, SI> op(As);
        Vec x = d.x.cast<double>().template cast<Sc>(), y(n);
        op.solve(x.data(), y.data());
        return y;
    });
    // CG stops at a relative residual of eps: the conditioning enters through the bound in the spec
    solve_row("SparseRegularInverse", "sparse", Uplo == UP, Flags == RM, si, tycode, "solve", n, s);
    // perform_op: exact product B x
    {
        Mat A = poisoned<Mat>(d.P, Uplo, 0);
        Eigen::SparseMatrix<Sc, Flags, SI> As = A.sparseView();
        SparseRegularInverse<Sc, Uplo, Flags, SI> op(As);
        Vec x = d.x.cast<double>().template cast<Sc>(), y(n);
        op.perform_op(x.data(), y.data());
        int nonint = 0;
        std::vector<ll> yi = exact_ints(y, nonint);
        Line l("Prod");
        l.str("w", "SparseRegularInverse").str("st", "sparse").i("uplo", Uplo == UP ? 1 : 0).i("rm", Flags == RM ? 1 : 0).str("si", si).i("ty", tycode).i("sym", 1);
        l.str("how", "plain").i("n", n).arr("a", ivec(d.P)).arr("x", ivec(d.x)).arr("y", yi).i("nonint", nonint).i("rows", (ll) op.rows()).i("cols", (ll) op.cols());
        out().put(l);
    }
}

// construct a SymShiftInvert with the argument kinds (dense / sparse) its template parameters name
template <typename W, bool SA, bool SB> struct MkSSI;
template <typename W> struct MkSSI<W, true, true>
{
    template <typename A, typename B, typename AS, typename BS> static W* make(const A&, const B&, const AS& As, const BS& Bs) { return new W(As, Bs); }
};
template <typename W> struct MkSSI<W, true, false>
{
    template <typename A, typename B, typename AS, typename BS> static W* make(const A&, const B& Bm, const AS& As, const BS&) { return new W(As, Bm); }
};
template <typename W> struct MkSSI<W, false, true>
{
    template <typename A, typename B, typename AS, typename BS> static W* make(const A& Am, const B&, const AS&, const BS& Bs) { return new W(Am, Bs); }
};
template <typename W> struct MkSSI<W, false, false>
{
    template <typename A, typename B, typename AS, typename BS> static W* make(const A& Am, const B& Bm, const AS&, const BS&) { return new W(Am, Bm); }
};

// SymShiftInvert: 64 combinations (A dense/sparse) x (B dense/sparse) x UploA x UploB x FlagsA x FlagsB
template <typename TA, typename TB, int UA, int UB, int FA, int FB>
static void sym_shift_invert(const Data& d, double sigma)
{
    typedef double Sc;
    typedef Eigen::Matrix<Sc, Eigen::Dynamic, Eigen::Dynamic, FA> MatA;
    typedef Eigen::Matrix<Sc, Eigen::Dynamic, Eigen::Dynamic, FB> MatB;
    typedef Eigen::Matrix<Sc, Eigen::Dynamic, 1> Vec;
    const int n = d.n;
    const bool sa = std::is_same<TA, Eigen::Sparse>::value, sb = std::is_same<TB, Eigen::Sparse>::value;
    MatL M = d.S.cast<LD>() - (LD) sigma * d.P.cast<LD>();
    VecL xl = d.x.cast<LD>();
    SolveLog s = run_solve<Sc>(n, M, xl, [&](int variant) {
        MatA A = poisoned<MatA>(d.S, UA, variant);
        MatB B = poisoned<MatB>(d.P, UB, variant);
        Eigen::SparseMatrix<Sc, FA> As = A.sparseView();
        Eigen::SparseMatrix<Sc, FB> Bs = B.sparseView();
        Vec x = d.x.cast<double>(), y(n);
        typedef SymShiftInvert<Sc, TA, TB, UA, UB, FA, FB> W;
        std::unique_ptr<W> op;
        op.reset(MkSSI<W, std::is_same<TA, Eigen::Sparse>::value, std::is_same<TB, Eigen::Sparse>::value>::make(A, B, As, Bs));
        op->set_shift(sigma + 1.25);
        op->set_shift(sigma);
        op->perform_op(x.data(), y.data());
        return y;
    });
    char cfg[16];
    snprintf(cfg, sizeof(cfg), "%c%c%c%c%c%c", sa ? 's' : 'd', sb ? 's' : 'd', UA == UP ? 'u' : 'l', UB == UP ? 'u' : 'l', FA == RM ? 'r' : 'c', FB == RM ? 'r' : 'c');
    solve_row("SymShiftInvert", "mixed", UA == UP, FA == RM, "-", 2, "shiftinvert", n, s, cfg);
}
template <typename TA, typename TB>
static void ssi_all(const Data& d, double sigma)
{
#define SSI(UA, UB, FA, FB) sym_shift_invert<TA, TB, UA, UB, FA, FB>(d, sigma);
    SSI(LO, LO, CM, CM) SSI(LO, LO, CM, RM) SSI(LO, LO, RM, CM) SSI(LO, LO, RM, RM)
    SSI(LO, UP, CM, CM) SSI(LO, UP, CM, RM) SSI(LO, UP, RM, CM) SSI(LO, UP, RM, RM)
    SSI(UP, LO, CM, CM) SSI(UP, LO, CM, RM) SSI(UP, LO, RM, CM) SSI(UP, LO, RM, RM)
    SSI(UP, UP, CM, CM) SSI(UP, UP, CM, RM) SSI(UP, UP, RM, CM) SSI(UP, UP, RM, RM)
#undef SSI
}

// composite operators of the generalized modes built on the wrappers: y = inv(A - sigma B)(A + sigma B) x etc.
static void composites(const Data& d, double sigma)
{
    typedef double Sc;
    typedef Eigen::MatrixXd Mat;
    typedef Eigen::VectorXd Vec;
    const int n = d.n;
    Mat A = poisoned<Mat>(d.S, LO, 0), B = poisoned<Mat>(d.P, LO, 0);
    MatL AL = d.S.cast<LD>(), BL = d.P.cast<LD>();
    MatL Si = (AL - (LD) sigma * BL).inverse();
    VecL xl = d.x.cast<LD>();
    Vec x = d.x.cast<double>(), y(n);
    typedef SymShiftInvert<Sc, Eigen::Dense, Eigen::Dense> SI;
    SI op(A, B);
    DenseSymMatProd<Sc> bop(B), aop(A);
    auto logc = [&](const char* name, const MatL& OPm, const Vec& yy) {
        SolveLog s;
        VecL yl = yy.cast<LD>();
        s.res = (yl - OPm * xl).norm();
        s.scale = OPm.norm() * xl.norm();
        s.cond = (AL - (LD) sigma * BL).norm() * Si.norm();
        Digest g;
        g.mat(yy);
        s.dg0 = s.dg1 = g.word30();
        s.fin = all_finite(yy) ? 1 : 0;
        solve_row(name, "dense", 0, 0, "-", 2, "composite", n, s);
    };
    {
        SymGEigsShiftInvertOp<SI, DenseSymMatProd<Sc> > c(op, bop);
        c.set_shift(sigma);
        c.perform_op(x.data(), y.data());
        logc("SymGEigsShiftInvertOp", Si * BL, y);
    }
    {
        SymGEigsBucklingOp<SI, DenseSymMatProd<Sc> > c(op, aop);   // inv(K - sigma KG) K with K = "A" here
        c.set_shift(sigma);
        c.perform_op(x.data(), y.data());
        logc("SymGEigsBucklingOp", Si * AL, y);
    }
    {
        SymGEigsCayleyOp<SI, DenseSymMatProd<Sc> > c(op, bop);
        c.set_shift(sigma);
        c.perform_op(x.data(), y.data());
        logc("SymGEigsCayleyOp", Si * (AL + (LD) sigma * BL), y);
    }
    {
        DenseCholesky<Sc> chol(B);
        SymGEigsCholeskyOp<DenseSymMatProd<Sc>, DenseCholesky<Sc> > c(aop, chol);
        c.perform_op(x.data(), y.data());
        Eigen::LLT<MatL> llt(BL);
        MatL L = llt.matrixL();
        MatL Li = L.inverse();
        logc("SymGEigsCholeskyOp", Li * AL * Li.transpose(), y);
    }
    {
        Eigen::SparseMatrix<Sc> As = A.sparseView(), Bs = B.sparseView();
        SparseSymMatProd<Sc> saop(As);
        SparseRegularInverse<Sc> reg(Bs);
        SymGEigsRegInvOp<SparseSymMatProd<Sc>, SparseRegularInverse<Sc> > c(saop, reg);
        c.perform_op(x.data(), y.data());
        logc("SymGEigsRegInvOp", BL.inverse() * AL, y);
    }
}

// matrices passed as blocks, maps and expressions
static void argument_forms(const Data& d)
{
    const int n = d.n;
    Eigen::MatrixXd big = Eigen::MatrixXd::Constant(n + 3, n + 4, 123.0);
    Eigen::MatrixXd A = poisoned<Eigen::MatrixXd>(d.S, LO, 0);
    big.block(1, 2, n, n) = A;
    Eigen::VectorXd x = d.x.cast<double>(), y(n);
    auto logp = [&](const char* how, const Eigen::VectorXd& yy) {
        int nonint = 0;
        std::vector<ll> yi = exact_ints(yy, nonint);
        Line l("Prod");
        l.str("w", "DenseSymMatProd").str("st", "dense").i("uplo", 0).i("rm", 0).str("si", "-").i("ty", 2).i("sym", 1);
        l.str("how", how).i("n", n).arr("a", ivec(d.S)).arr("x", ivec(d.x)).arr("y", yi).i("nonint", nonint).i("rows", n).i("cols", n);
        out().put(l);
    };
    {
        DenseSymMatProd<double> op(big.block(1, 2, n, n));
        op.perform_op(x.data(), y.data());
        logp("block", y);
    }
    {
        std::vector<double> buf(A.data(), A.data() + n * n);
        Eigen::Map<const Eigen::MatrixXd> mp(buf.data(), n, n);
        DenseSymMatProd<double> op(mp);
        op.perform_op(x.data(), y.data());
        logp("map", y);
    }
    {
        Eigen::MatrixXd H = A * 0.5;
        DenseSymMatProd<double> op(H + H);   // expression
        op.perform_op(x.data(), y.data());
        logp("expression", y);
    }
}

template <typename T>
void dispatch(const Desc& d)
{
    {
        Line l("Reset");
        l.str("desc", d.raw);
        out().put(l);
    }
    Rng r((uint64_t) d.i("seed", 1) * 4099 + 5);
    const int reps = (int) d.i("reps", 3);
    const std::string part = d.s("part", "all");
    for (int rep = 0; rep < reps; rep++)
    {
        const int n = (rep % 2 == 0) ? 3 : (int) (4 + r.below((int) d.i("nmax", 5)));
        Data dt = make_data(n, r);
        const double sigma = 0.5 + rep;   // half-integers: the shifted integer matrices are nonsingular with overwhelming likelihood; cond is logged
#if !defined(VH_MATOP_PART) || VH_MATOP_PART == 1
        if (part == "all" || part == "prod")
        {
#define DSP(Sc, code) dense_sym_prod<Sc, LO, CM>(dt, code); dense_sym_prod<Sc, LO, RM>(dt, code); dense_sym_prod<Sc, UP, CM>(dt, code); dense_sym_prod<Sc, UP, RM>(dt, code); \
                      dense_gen_prod<Sc, CM>(dt, code); dense_gen_prod<Sc, RM>(dt, code);
            DSP(float, 1) DSP(double, 2) DSP(long double, 3)
#undef DSP
#define SSP(Sc, code, SI, sn) sparse_sym_prod<Sc, LO, CM, SI>(dt, code, sn); sparse_sym_prod<Sc, LO, RM, SI>(dt, code, sn); sparse_sym_prod<Sc, UP, CM, SI>(dt, code, sn); sparse_sym_prod<Sc, UP, RM, SI>(dt, code, sn); \
                              sparse_gen_prod<Sc, CM, SI>(dt, code, sn); sparse_gen_prod<Sc, RM, SI>(dt, code, sn);
            SSP(double, 2, int, "int") SSP(double, 2, long, "long") SSP(float, 1, int, "int") SSP(long double, 3, int, "int")
#undef SSP
            herm_prod<LO, CM, false>(dt, r); herm_prod<LO, RM, false>(dt, r); herm_prod<UP, CM, false>(dt, r); herm_prod<UP, RM, false>(dt, r);
            herm_prod<LO, CM, true>(dt, r); herm_prod<LO, RM, true>(dt, r); herm_prod<UP, CM, true>(dt, r); herm_prod<UP, RM, true>(dt, r);
            argument_forms(dt);
        }
#endif
#if !defined(VH_MATOP_PART) || VH_MATOP_PART == 2
        if (part == "all" || part == "solve")
        {
#define DSS(Sc, code) dense_sym_shift<Sc, LO, CM>(dt, code, sigma); dense_sym_shift<Sc, LO, RM>(dt, code, sigma); dense_sym_shift<Sc, UP, CM>(dt, code, sigma); dense_sym_shift<Sc, UP, RM>(dt, code, sigma); \
                      gen_real_shift<Sc, CM, false, int>(dt, code, sigma, "-"); gen_real_shift<Sc, RM, false, int>(dt, code, sigma, "-"); \
                      gen_complex_shift<Sc, CM, false, int>(dt, code, sigma, 0.75, "-"); gen_complex_shift<Sc, RM, false, int>(dt, code, sigma, 0.75, "-"); \
                      cholesky<Sc, LO, CM, false, int>(dt, code, "-"); cholesky<Sc, LO, RM, false, int>(dt, code, "-"); cholesky<Sc, UP, CM, false, int>(dt, code, "-"); cholesky<Sc, UP, RM, false, int>(dt, code, "-");
            DSS(double, 2) DSS(float, 1) DSS(long double, 3)
#undef DSS
#define SPS(Sc, code, SI, sn) sparse_sym_shift<Sc, LO, CM, SI>(dt, code, sigma, sn); sparse_sym_shift<Sc, LO, RM, SI>(dt, code, sigma, sn); sparse_sym_shift<Sc, UP, CM, SI>(dt, code, sigma, sn); sparse_sym_shift<Sc, UP, RM, SI>(dt, code, sigma, sn); \
                              gen_real_shift<Sc, CM, true, SI>(dt, code, sigma, sn); gen_real_shift<Sc, RM, true, SI>(dt, code, sigma, sn); \
                              gen_complex_shift<Sc, CM, true, SI>(dt, code, sigma, 0.75, sn); gen_complex_shift<Sc, RM, true, SI>(dt, code, sigma, 0.75, sn); \
                              cholesky<Sc, LO, CM, true, SI>(dt, code, sn); cholesky<Sc, LO, RM, true, SI>(dt, code, sn); cholesky<Sc, UP, CM, true, SI>(dt, code, sn); cholesky<Sc, UP, RM, true, SI>(dt, code, sn); \
                              reg_inverse<Sc, LO, CM, SI>(dt, code, sn); reg_inverse<Sc, LO, RM, SI>(dt, code, sn); reg_inverse<Sc, UP, CM, SI>(dt, code, sn); reg_inverse<Sc, UP, RM, SI>(dt, code, sn);
            SPS(double, 2, int, "int") SPS(double, 2, long, "long")
#undef SPS
        }
#endif
#if !defined(VH_MATOP_PART) || VH_MATOP_PART == 3
        if (part == "all" || part == "ssi")
        {
            ssi_all<Eigen::Dense, Eigen::Dense>(dt, sigma);
            ssi_all<Eigen::Dense, Eigen::Sparse>(dt, sigma);
            ssi_all<Eigen::Sparse, Eigen::Dense>(dt, sigma);
            ssi_all<Eigen::Sparse, Eigen::Sparse>(dt, sigma);
            composites(dt, sigma);
            // the shift 0 (legal for shift-and-invert whenever A itself is nonsingular): all 64 configurations once more
            {
                Eigen::FullPivLU<MatL> lu(dt.S.cast<LD>());
                if (lu.isInvertible() && lu.rcond() > 1e-3L)
                {
                    ssi_all<Eigen::Dense, Eigen::Dense>(dt, 0.0);
                    ssi_all<Eigen::Dense, Eigen::Sparse>(dt, 0.0);
                    ssi_all<Eigen::Sparse, Eigen::Dense>(dt, 0.0);
                    ssi_all<Eigen::Sparse, Eigen::Sparse>(dt, 0.0);
                }
            }
        }
#endif
    }
#if !defined(VH_MATOP_PART) || VH_MATOP_PART == 2
    if (part == "all" || part == "solve")
    {
        // graded pivot traps [[0,1,0],[1,d,M],[0,M,e]]: a zero diagonal entry whose column maximum (1) sits in a row with a huge entry M.
        // The Bunch-Kaufman test must compare |a_rr| with the row maximum sigma, not with lambda; a wrong 1x1 pivot gives element growth M.
        // Data exactly representable; the factorization is backward stable whatever the condition number is.
        const int Ms[4] = {1000, 100000, 10000000, 1000000000};
        for (int mi = 0; mi < 4; mi++)
            for (int var = 0; var < 2; var++)
            {
                Data dt = make_data(3, r);
                dt.S.setZero();
                dt.S(0, 1) = dt.S(1, 0) = 1;
                dt.S(1, 1) = 1;
                dt.S(1, 2) = dt.S(2, 1) = Ms[mi];
                dt.S(2, 2) = var ? 1 : Ms[mi];
                dt.x[0] = 1; dt.x[1] = 2; dt.x[2] = -1;
#define TRAP(Sc, code) dense_sym_shift<Sc, LO, CM>(dt, code, 0.0, true); dense_sym_shift<Sc, UP, RM>(dt, code, 0.0, true);
                TRAP(double, 2) TRAP(long double, 3)
                if (mi < 2)
                {
                    TRAP(float, 1)
                }
#undef TRAP
            }
    }
#endif
    Line e("EndMatOp");
    e.i("reps", reps).str("part", part);
    out().put(e);
}
#define VH_ONLY 2
#include "drv_main.h"
