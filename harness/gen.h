// Input families.  Every matrix is generated in long double from a descriptor
// (fam, n, seed, scale, ...) and cast to the scalar type under test afterwards, so that every
// execution is replayable from its descriptor.
#ifndef VERIF_GEN_H
#define VERIF_GEN_H
#include "vh.h"

namespace vh {

// random orthogonal matrix: product of n-1 Householder reflectors applied to I
inline MatL rand_orth(int n, Rng& r)
{
    MatL Q = MatL::Identity(n, n);
    for (int k = 0; k < n; k++)
    {
        VecL v(n);
        for (int i = 0; i < n; i++)
            v[i] = r.gauss();
        LD nv = v.norm();
        if (nv == 0)
            continue;
        v /= nv;
        // Q <- Q (I - 2 v v')
        VecL Qv = Q * v;
        Q.noalias() -= 2.0L * Qv * v.transpose();
    }
    return Q;
}

inline CMatL rand_unitary(int n, Rng& r)
{
    CMatL Q = CMatL::Identity(n, n);
    for (int k = 0; k < n; k++)
    {
        CVecL v(n);
        for (int i = 0; i < n; i++)
            v[i] = CLD(r.gauss(), r.gauss());
        LD nv = v.norm();
        if (nv == 0)
            continue;
        v /= nv;
        CVecL Qv = Q * v;
        Q.noalias() -= CLD(2.0L, 0) * Qv * v.adjoint();
    }
    return Q;
}

// prescribed spectra -------------------------------------------------------------
// kind: lin (1..n scaled to [-1,1] or shifted), clust, rep, int, lowrank, geo (graded spectrum)
inline VecL make_spectrum(const std::string& kind, int n, Rng& r, const Desc& d)
{
    VecL s(n);
    if (kind == "lin")
    {
        for (int i = 0; i < n; i++)
            s[i] = (LD)(i + 1) - (LD) d.i("off", 0);
    }
    else if (kind == "unif")
    {
        for (int i = 0; i < n; i++)
            s[i] = r.sym();
    }
    else if (kind == "clust")
    {
        // clusters of width 10^-w around a few centres
        int nc = (int) d.i("nc", 3);
        LD w = std::pow(10.0L, -(LD) d.i("w", 4));
        for (int i = 0; i < n; i++)
            s[i] = (LD)((i % nc) + 1) + w * r.sym();
    }
    else if (kind == "rep")
    {
        // repeated eigenvalues: each value has multiplicity mult
        int mult = (int) d.i("mult", 2);
        for (int i = 0; i < n; i++)
            s[i] = (LD)(i / mult + 1) * ((i / mult) % 2 ? -1.0L : 1.0L);
    }
    else if (kind == "int")
    {
        // distinct integers, symmetric around 0, no zero unless n odd
        for (int i = 0; i < n; i++)
            s[i] = (LD)(i - n / 2) + (LD) d.i("off", 0);
    }
    else if (kind == "lowrank")
    {
        int rk = (int) d.i("rank", 2);
        for (int i = 0; i < n; i++)
            s[i] = i < rk ? (LD)(i + 1) * (i % 2 ? -1.0L : 1.0L) : 0.0L;
    }
    else if (kind == "geo")
    {
        // geometric: 2^{-span*i/(n-1)}
        LD span = (LD) d.i("span", 20);
        for (int i = 0; i < n; i++)
            s[i] = std::pow(2.0L, -span * (LD) i / (LD)(n > 1 ? n - 1 : 1)) * (i % 2 ? -1.0L : 1.0L);
    }
    else if (kind == "evenintnz")
    {
        // as evenint, but nonsingular: 0 is excluded (the start vector is forced into range(A), so an eigenvalue 0 is
        // systematically invisible to the plain solvers: recorded as a known finding on a fixed descriptor)
        std::vector<int> pool;
        for (int v = -14; v <= 14; v++)
            if (v != 0)
                pool.push_back(v);
        for (int i = (int) pool.size() - 1; i > 0; i--)
            std::swap(pool[i], pool[r.below(i + 1)]);
        for (int i = 0; i < n; i++)
            s[i] = (LD) pool[i % 28];
    }
    else if (kind == "evenint")
    {
        // n distinct integers from [-14, 14] (C04: exact rational oracle in the specification), n <= 29
        std::vector<int> pool;
        for (int v = -14; v <= 14; v++)
            pool.push_back(v);
        for (int i = (int) pool.size() - 1; i > 0; i--)
            std::swap(pool[i], pool[r.below(i + 1)]);
        for (int i = 0; i < n; i++)
            s[i] = (LD) pool[i % 29];
    }
    else if (kind == "pos")
    {
        for (int i = 0; i < n; i++)
            s[i] = (LD)(i + 1) / (LD) n + 0.5L;
    }
    else
    {
        fprintf(stderr, "unknown spectrum kind %s\n", kind.c_str());
        exit(3);
    }
    return s;
}

struct SymProblem
{
    MatL A;      // real symmetric (long double)
    CMatL AC;    // complex Hermitian variant (if requested)
    VecL spec;   // prescribed spectrum if known (size 0 otherwise)
    MatL Q;      // eigenvectors if known
    int blk;     // leading block size for block-diagonal families (0 otherwise)
};

// Symmetric families
inline SymProblem gen_sym(const Desc& d)
{
    const int n = (int) d.i("n");
    Rng r((uint64_t) d.i("seed", 1) * 7919ULL + 13ULL);
    const std::string fam = d.s("fam", "rand");
    const LD scale = std::pow(2.0L, (LD) d.i("lgs", 0));  // overall scaling 2^lgs
    SymProblem p;
    p.blk = 0;
    if (fam == "rand")
    {
        MatL M(n, n);
        for (int i = 0; i < n; i++)
            for (int j = 0; j < n; j++)
                M(i, j) = r.sym();
        p.A = (M + M.transpose()) * 0.5L;
    }
    else if (fam == "sprand")
    {
        // sparse-ish symmetric with density ~ dens%
        int dens = (int) d.i("dens", 30);
        MatL M = MatL::Zero(n, n);
        for (int i = 0; i < n; i++)
            for (int j = 0; j <= i; j++)
                if (r.below(100) < dens || i == j)
                    M(i, j) = M(j, i) = r.sym();
        p.A = M;
    }
    else if (fam == "presc")
    {
        p.spec = make_spectrum(d.s("spec", "lin"), n, r, d);
        p.Q = rand_orth(n, r);
        p.A = p.Q * p.spec.asDiagonal() * p.Q.transpose();
        p.A = ((p.A + p.A.transpose()) * 0.5L).eval();
    }
    else if (fam == "diag")
    {
        p.spec = make_spectrum(d.s("spec", "lin"), n, r, d);
        p.Q = MatL::Identity(n, n);
        p.A = p.spec.asDiagonal();
    }
    else if (fam == "graded")
    {
        // D M D with D = diag(2^{-span*i/n})
        LD span = (LD) d.i("span", 30);
        MatL M(n, n);
        for (int i = 0; i < n; i++)
            for (int j = 0; j <= i; j++)
                M(i, j) = M(j, i) = r.sym();
        VecL D(n);
        for (int i = 0; i < n; i++)
            D[i] = std::pow(2.0L, -span * (LD) i / (LD) n);
        p.A = D.asDiagonal() * M * D.asDiagonal();
    }
    else if (fam == "blockdiag")
    {
        // diag(A1, A2), A1 of size blk; a start vector supported on the first block gives an
        // exact invariant subspace of dimension blk => breakdown at step blk
        int b = (int) d.i("blk", 3);
        p.blk = b;
        MatL M = MatL::Zero(n, n);
        for (int i = 0; i < n; i++)
            for (int j = 0; j <= i; j++)
                if ((i < b) == (j < b))
                    M(i, j) = M(j, i) = r.sym();
        p.A = M;
    }
    else if (fam == "rowsum")
    {
        // symmetric with constant row sums c: the vector of ones is an eigenvector to full working accuracy but (after rounding
        // to the working type) not exactly - the residual of the step-1 factorization is tiny and NONZERO
        const LD c = (LD) d.i("rs", 3);
        MatL M = MatL::Zero(n, n);
        for (int i = 0; i < n; i++)
            for (int j = 0; j < i; j++)
                M(i, j) = M(j, i) = r.sym();
        for (int i = 0; i < n; i++)
        {
            LD sum = 0;
            for (int j = 0; j < n; j++)
                if (j != i)
                    sum += M(i, j);
            M(i, i) = c - sum;
        }
        p.A = M;
    }
    else if (fam == "zero")
    {
        p.A = MatL::Zero(n, n);
        p.spec = VecL::Zero(n);
        p.Q = MatL::Identity(n, n);
    }
    else if (fam == "ident")
    {
        p.A = MatL::Identity(n, n);
        p.spec = VecL::Ones(n);
        p.Q = MatL::Identity(n, n);
    }
    else if (fam == "bipart")
    {
        // bipartite [0 B; B' 0]: a start vector supported on the first part makes every <v, A v> exactly zero
        int b = (int) d.i("blk", n / 2);
        p.blk = b;
        p.A = MatL::Zero(n, n);
        for (int i = 0; i < b; i++)
            for (int j = b; j < n; j++)
                p.A(i, j) = p.A(j, i) = r.sym();
    }
    else if (fam == "grid")
    {
        // adjacency matrix of a path/grid-like graph: (i, i+1) and (i, i+w) edges; zero diagonal
        int w = (int) d.i("w", 3);
        p.A = MatL::Zero(n, n);
        for (int i = 0; i < n; i++)
        {
            if (i + 1 < n && (i + 1) % w != 0)
                p.A(i, i + 1) = p.A(i + 1, i) = 1;
            if (i + w < n)
                p.A(i, i + w) = p.A(i + w, i) = 1;
        }
    }
    else if (fam == "lap")
    {
        // 1-D Laplacian (tridiagonal 2,-1): slow convergence at interior/small end
        p.A = MatL::Zero(n, n);
        for (int i = 0; i < n; i++)
        {
            p.A(i, i) = 2;
            if (i + 1 < n)
                p.A(i, i + 1) = p.A(i + 1, i) = -1;
        }
    }
    else
    {
        fprintf(stderr, "unknown sym family %s\n", fam.c_str());
        exit(3);
    }
    p.A *= scale;
    if (p.spec.size())
        p.spec *= scale;
    return p;
}

// complex Hermitian: U diag(spec) U^H or random
inline CMatL gen_herm(const Desc& d, VecL& spec)
{
    const int n = (int) d.i("n");
    Rng r((uint64_t) d.i("seed", 1) * 7919ULL + 17ULL);
    const std::string fam = d.s("fam", "rand");
    const LD scale = std::pow(2.0L, (LD) d.i("lgs", 0));
    CMatL A;
    spec.resize(0);
    if (fam == "presc")
    {
        spec = make_spectrum(d.s("spec", "lin"), n, r, d);
        CMatL U = rand_unitary(n, r);
        CMatL D = CMatL::Zero(n, n);
        for (int i = 0; i < n; i++)
            D(i, i) = spec[i];
        A = U * D * U.adjoint();
        A = ((A + A.adjoint()) * CLD(0.5L, 0)).eval();
        for (int i = 0; i < n; i++)
            A(i, i) = CLD(A(i, i).real(), 0);
    }
    else if (fam == "blockdiag")
    {
        int b = (int) d.i("blk", 3);
        A = CMatL::Zero(n, n);
        for (int i = 0; i < n; i++)
            for (int j = 0; j <= i; j++)
                if ((i < b) == (j < b))
                {
                    CLD v(r.sym(), i == j ? 0.0L : r.sym());
                    A(i, j) = v;
                    A(j, i) = std::conj(v);
                }
    }
    else if (fam == "zero")
    {
        A = CMatL::Zero(n, n);
    }
    else
    {
        A = CMatL::Zero(n, n);
        for (int i = 0; i < n; i++)
            for (int j = 0; j <= i; j++)
            {
                CLD v(r.sym(), i == j ? 0.0L : r.sym());
                A(i, j) = v;
                A(j, i) = std::conj(v);
            }
    }
    A *= CLD(scale, 0);
    if (spec.size())
        spec *= scale;
    return A;
}

// General real families ---------------------------------------------------------------
struct GenProblem
{
    MatL A;
    CVecL spec;  // prescribed spectrum if known
};

inline GenProblem gen_gen(const Desc& d)
{
    const int n = (int) d.i("n");
    Rng r((uint64_t) d.i("seed", 1) * 7919ULL + 29ULL);
    const std::string fam = d.s("fam", "rand");
    const LD scale = std::pow(2.0L, (LD) d.i("lgs", 0));
    GenProblem p;
    if (fam == "rand")
    {
        p.A.resize(n, n);
        for (int i = 0; i < n; i++)
            for (int j = 0; j < n; j++)
                p.A(i, j) = r.sym();
    }
    else if (fam == "presc" || fam == "nonnormal")
    {
        // block diagonal with `nc` 2x2 blocks [a b; -b a] (eigenvalues a +- bi) and real eigenvalues,
        // then similarity: orthogonal (normal matrix) or unit upper-triangular-ish (non-normal)
        int nc = (int) d.i("ncp", n / 4);  // number of complex pairs
        MatL D = MatL::Zero(n, n);
        p.spec.resize(n);
        int i = 0;
        std::string sk = d.s("spec", "lin");
        for (int c = 0; c < nc && i + 1 < n; c++, i += 2)
        {
            LD a, b;
            if (sk == "int")
            {
                a = (LD)(c + 1) * (c % 2 ? -1.0L : 1.0L);
                b = (LD)(c + 1);
            }
            else if (sk == "cint")
            {
                // Gaussian integers c + (2c+1) i: distinct moduli, real parts and imaginary parts (C04: exact oracle in the spec)
                a = (LD) c;
                b = (LD)(2 * c + 1);
            }
            else
            {
                a = r.sym() * 2.0L;
                b = 0.25L + r.uni() * 2.0L;
            }
            D(i, i) = a;
            D(i + 1, i + 1) = a;
            D(i, i + 1) = b;
            D(i + 1, i) = -b;
            p.spec[i] = CLD(a, b);
            p.spec[i + 1] = CLD(a, -b);
        }
        for (int c = 0; i < n; i++, c++)
        {
            LD a = (sk == "int") ? (LD)(c + 1) * 1.5L * (c % 2 ? -1.0L : 1.0L) + 0.25L : r.sym() * 3.0L;
            if (sk == "cint")
                a = (LD)((c % 2 ? -1 : 1) * (6 + c));   // 6, -7, 8, -9, ...: distinct from the complex pairs in every key
            D(i, i) = a;
            p.spec[i] = CLD(a, 0);
        }
        if (fam == "presc")
        {
            MatL Q = rand_orth(n, r);
            p.A = Q * D * Q.transpose();
        }
        else
        {
            // S = I + strictly upper random (condition moderate)
            MatL S = MatL::Identity(n, n);
            for (int a = 0; a < n; a++)
                for (int b = a + 1; b < n; b++)
                    S(a, b) = 0.3L * r.sym();
            MatL Si = S.inverse();
            p.A = S * D * Si;
        }
    }
    else if (fam == "orth")
    {
        p.A = rand_orth(n, r);
    }
    else if (fam == "perm")
    {
        // random permutation matrix
        std::vector<int> pi(n);
        for (int i = 0; i < n; i++)
            pi[i] = i;
        for (int i = n - 1; i > 0; i--)
            std::swap(pi[i], pi[r.below(i + 1)]);
        p.A = MatL::Zero(n, n);
        for (int i = 0; i < n; i++)
            p.A(pi[i], i) = 1;
    }
    else if (fam == "cyc")
    {
        // cyclic shift: eigenvalues = n-th roots of unity (all magnitudes tie)
        p.A = MatL::Zero(n, n);
        for (int i = 0; i < n; i++)
            p.A((i + 1) % n, i) = 1;
    }
    else if (fam == "skew")
    {
        p.A.resize(n, n);
        for (int i = 0; i < n; i++)
            for (int j = 0; j <= i; j++)
            {
                LD v = (i == j) ? 0.0L : r.sym();
                p.A(i, j) = v;
                p.A(j, i) = -v;
            }
    }
    else if (fam == "tri")
    {
        // upper triangular, distinct diagonal
        p.A = MatL::Zero(n, n);
        p.spec.resize(n);
        for (int i = 0; i < n; i++)
        {
            for (int j = i + 1; j < n; j++)
                p.A(i, j) = r.sym();
            p.A(i, i) = (LD)(i + 1) * (i % 2 ? -1.0L : 1.0L);
            p.spec[i] = CLD(p.A(i, i), 0);
        }
    }
    else if (fam == "companion")
    {
        // companion matrix of prod (x - k), k = 1..n scaled
        p.A = MatL::Zero(n, n);
        std::vector<LD> c(n + 1, 0.0L);
        c[0] = 1;
        for (int k = 1; k <= n; k++)
        {
            LD root = (LD) k / (LD) n * 2.0L * (k % 2 ? 1.0L : -1.0L);
            for (int j = k; j >= 1; j--)
                c[j] = c[j] - root * c[j - 1];
        }
        // c[0] x^n + c[1] x^{n-1} + ... ; companion: first row = -c[1..n]
        for (int j = 0; j < n; j++)
            p.A(0, j) = -c[j + 1];
        for (int i = 1; i < n; i++)
            p.A(i, i - 1) = 1;
    }
    else if (fam == "lowrank")
    {
        int rk = (int) d.i("rank", 1);
        MatL U(n, rk), V(n, rk);
        for (int i = 0; i < n; i++)
            for (int j = 0; j < rk; j++)
            {
                U(i, j) = r.sym();
                V(i, j) = r.sym();
            }
        p.A = U * V.transpose();
    }
    else if (fam == "blockdiag")
    {
        int b = (int) d.i("blk", 3);
        p.A = MatL::Zero(n, n);
        for (int i = 0; i < n; i++)
            for (int j = 0; j < n; j++)
                if ((i < b) == (j < b))
                    p.A(i, j) = r.sym();
    }
    else if (fam == "fewdist")
    {
        // diagonalizable with few distinct real eigenvalues
        int nd = (int) d.i("nd", 3);
        MatL D = MatL::Zero(n, n);
        p.spec.resize(n);
        for (int i = 0; i < n; i++)
        {
            D(i, i) = (LD)((i % nd) + 1);
            p.spec[i] = CLD(D(i, i), 0);
        }
        MatL Q = rand_orth(n, r);
        p.A = Q * D * Q.transpose();
    }
    else if (fam == "zero")
    {
        p.A = MatL::Zero(n, n);
    }
    else if (fam == "ident")
    {
        p.A = MatL::Identity(n, n);
    }
    else if (fam == "rowsum")
    {
        // constant row sums: ones is a right eigenvector to working accuracy (see gen_sym)
        const LD c = (LD) d.i("rs", 3);
        p.A.resize(n, n);
        for (int i = 0; i < n; i++)
        {
            LD sum = 0;
            for (int j = 0; j < n; j++)
                if (j != i)
                {
                    p.A(i, j) = r.sym();
                    sum += p.A(i, j);
                }
            p.A(i, i) = c - sum;
        }
    }
    else if (fam == "nilp")
    {
        p.A = MatL::Zero(n, n);
        for (int i = 0; i + 1 < n; i++)
            p.A(i, i + 1) = 1;
    }
    else
    {
        fprintf(stderr, "unknown gen family %s\n", fam.c_str());
        exit(3);
    }
    p.A *= scale;
    if (p.spec.size())
        p.spec *= CLD(scale, 0);
    return p;
}

// SPD matrix with prescribed condition number 2^lgc
inline MatL gen_spd(int n, Rng& r, int lgc)
{
    MatL Q = rand_orth(n, r);
    VecL s(n);
    for (int i = 0; i < n; i++)
        s[i] = std::pow(2.0L, -(LD) lgc * (LD) i / (LD)(n > 1 ? n - 1 : 1));
    MatL B = Q * s.asDiagonal() * Q.transpose();
    return ((B + B.transpose()) * 0.5L).eval();
}

// start vectors: kind "def" (library default, caller uses init()), "rnd", "e1" (first unit vector),
// "blk" (supported on the first blk coordinates), "eig" (an exact eigenvector if known), "ones"
// "neareig" / "nearblk" / "neare1": a vector of an exactly invariant subspace (an eigenvector, the leading block coordinates, e1) plus
// 10^dlt times a random vector: a NEAR breakdown, whose residual (about 10^dlt) is far above rounding level and must be kept
inline VecL gen_start(const std::string& kind, int n, uint64_t seed, int blk, const MatL* Q, int dlt = -9)
{
    Rng r(seed * 104729ULL + 7ULL);
    VecL v = VecL::Zero(n);
    if (kind == "neareig" || kind == "nearblk" || kind == "neare1")
    {
        VecL base = gen_start(kind == "neareig" ? "eig" : (kind == "nearblk" ? "blk" : "e1"), n, seed, blk, Q);
        const LD delta = std::pow(10.0L, (LD) dlt);
        for (int i = 0; i < n; i++)
            v[i] = base[i] + delta * r.sym();
        return v;
    }
    if (kind == "rnd")
    {
        for (int i = 0; i < n; i++)
            v[i] = r.sym();
    }
    else if (kind == "rnd2")
    {
        for (int i = 0; i < n; i++)
            v[i] = r.sym() + 0.1L;
    }
    else if (kind == "e1")
        v[0] = 1;
    else if (kind == "ones")
        v.setOnes();
    else if (kind == "blk")
    {
        for (int i = 0; i < (blk > 0 ? blk : 1) && i < n; i++)
            v[i] = r.sym() + 1.5L;
    }
    else if (kind == "eig" && Q && Q->cols())
    {
        v = Q->col(0);
    }
    else if (kind == "inv2" && Q && Q->cols() >= 2)
    {
        v = Q->col(0) + 0.5L * Q->col(Q->cols() - 1);
    }
    else if (kind == "zero")
    {
    }
    else
    {
        for (int i = 0; i < n; i++)
            v[i] = r.sym();
    }
    return v;
}

}  // namespace vh
#endif
