// Driver for C12: exhaustive tables of argument validation.
//   Ctor rows   every solver class x n in 1..NMAX x (nev, ncv) in [-2, n+3]^2: outcome and live-heap delta
//   Svd rows    PartialSVDSolver for every shape up to 6x6 and (ncomp, ncv) in [-1, min+2]^2
//   Shape rows  every wrapper constructor that needs a square matrix, every shape up to 4x4
//   Sigma rows  buckling / Cayley mode with sigma = 0 and sigma != 0
//   Init rows   init() with a zero / non-zero vector
//   Rule rows   compute() with each of the nine SortRule values as selection and as sorting argument
#include "alloc_guard.h"
#include "ir_run.h"
#include <Spectra/SymEigsSolver.h>
#include <Spectra/HermEigsSolver.h>
#include <Spectra/SymEigsShiftSolver.h>
#include <Spectra/GenEigsSolver.h>
#include <Spectra/GenEigsRealShiftSolver.h>
#include <Spectra/GenEigsComplexShiftSolver.h>
#include <Spectra/SymGEigsSolver.h>
#include <Spectra/SymGEigsShiftSolver.h>
#include <Spectra/DavidsonSymEigsSolver.h>
#include <Spectra/contrib/PartialSVDSolver.h>
#include <Spectra/contrib/LOBPCGSolver.h>
#include <Spectra/MatOp/DenseSymMatProd.h>
#include <Spectra/MatOp/DenseHermMatProd.h>
#include <Spectra/MatOp/DenseGenMatProd.h>
#include <Spectra/MatOp/DenseSymShiftSolve.h>
#include <Spectra/MatOp/SparseSymShiftSolve.h>
#include <Spectra/MatOp/DenseGenRealShiftSolve.h>
#include <Spectra/MatOp/SparseGenRealShiftSolve.h>
#include <Spectra/MatOp/DenseGenComplexShiftSolve.h>
#include <Spectra/MatOp/SparseGenComplexShiftSolve.h>
#include <Spectra/MatOp/DenseCholesky.h>
#include <Spectra/MatOp/SparseCholesky.h>
#include <Spectra/MatOp/SparseRegularInverse.h>
#include <Spectra/MatOp/SparseSymMatProd.h>
#include <Spectra/MatOp/SymShiftInvert.h>

using namespace vh;
using namespace Spectra;


// outcome codes: 0 accepted, 1 std::invalid_argument, 2 any other exception
template <typename F>
static void attempt(Line& l, F f)
{
    const long long live0 = (long long) vh_heap_live;
    int outc = 0;
    try
    {
        f();
    }
    catch (const std::invalid_argument&)
    {
        outc = 1;
    }
    catch (const std::exception&)
    {
        outc = 2;
    }
    catch (...)
    {
        outc = 2;
    }
    l.i("out", outc).i("leak", (long long) vh_heap_live - live0);
    out().put(l);
}

static Eigen::MatrixXd sym_mat(int n)
{
    Eigen::MatrixXd A = Eigen::MatrixXd::Zero(n, n);
    for (int i = 0; i < n; i++)
    {
        A(i, i) = 2.0 + i;
        if (i + 1 < n)
            A(i, i + 1) = A(i + 1, i) = 0.5;
    }
    return A;
}

static void ctor_rows(int nmax)
{
    for (int n = 1; n <= nmax; n++)
    {
        Eigen::MatrixXd A = sym_mat(n);
        Eigen::MatrixXd B = Eigen::MatrixXd::Identity(n, n) * 2.0 + 0.1 * A;
        Eigen::MatrixXcd AC = A.cast<std::complex<double> >();
        Eigen::SparseMatrix<double> As = A.sparseView(), Bs = B.sparseView();
        DenseSymMatProd<double> opSym(A);
        DenseHermMatProd<std::complex<double> > opHerm(AC);
        DenseSymShiftSolve<double> opSymSh(A);
        DenseGenMatProd<double> opGen(A);
        DenseGenRealShiftSolve<double> opGenRs(A);
        DenseGenComplexShiftSolve<double> opGenCs(A);
        DenseCholesky<double> opChol(B);
        SparseSymMatProd<double> opSpSym(As);
        SparseRegularInverse<double> opReg(Bs);
        SymShiftInvert<double, Eigen::Dense, Eigen::Dense> opSI(A, B);
        DenseSymMatProd<double> opB(B);
        // the shift-solve operators allocate their factorization when a solver constructor calls set_shift(); that storage
        // belongs to the (surviving) operator, so it is created once here and not counted as a leak of a constructor call
        opSymSh.set_shift(0.37);
        opGenRs.set_shift(0.37);
        opGenCs.set_shift(0.37, 0.8);
        opSI.set_shift(0.37);
        for (int nev = -2; nev <= n + 3; nev++)
            for (int ncv = -2; ncv <= n + 3; ncv++)
            {
#define ROW(NAME, FAMILY, EXPR)                                                        \
    {                                                                                  \
        Line l("Ctor");                                                                \
        l.str("cls", NAME).i("fam", FAMILY).i("n", n).i("nev", nev).i("ncv", ncv);    \
        attempt(l, [&]() { EXPR; });                                                   \
    }
                ROW("sym", 0, SymEigsSolver<DenseSymMatProd<double> > s(opSym, nev, ncv))
                ROW("herm", 0, HermEigsSolver<DenseHermMatProd<std::complex<double> > > s(opHerm, nev, ncv))
                ROW("symsh", 0, SymEigsShiftSolver<DenseSymShiftSolve<double> > s(opSymSh, nev, ncv, 0.37))
                ROW("gen", 1, GenEigsSolver<DenseGenMatProd<double> > s(opGen, nev, ncv))
                ROW("genrs", 1, GenEigsRealShiftSolver<DenseGenRealShiftSolve<double> > s(opGenRs, nev, ncv, 0.37))
                ROW("gencs", 1, GenEigsComplexShiftSolver<DenseGenComplexShiftSolve<double> > s(opGenCs, nev, ncv, 0.37, 0.8))
                typedef SymGEigsSolver<DenseSymMatProd<double>, DenseCholesky<double>, GEigsMode::Cholesky> GChol;
                ROW("gchol", 0, GChol s(opSym, opChol, nev, ncv))
                typedef SymGEigsSolver<SparseSymMatProd<double>, SparseRegularInverse<double>, GEigsMode::RegularInverse> GReg;
                ROW("greginv", 0, GReg s(opSpSym, opReg, nev, ncv))
                typedef SymShiftInvert<double, Eigen::Dense, Eigen::Dense> SI;
                typedef SymGEigsShiftSolver<SI, DenseSymMatProd<double>, GEigsMode::ShiftInvert> GSi;
                ROW("gsi", 0, GSi s(opSI, opB, nev, ncv, 0.37))
                typedef SymGEigsShiftSolver<SI, DenseSymMatProd<double>, GEigsMode::Buckling> GBu;
                ROW("gbuck", 0, GBu s(opSI, opB, nev, ncv, 0.37))
                typedef SymGEigsShiftSolver<SI, DenseSymMatProd<double>, GEigsMode::Cayley> GCa;
                ROW("gcay", 0, GCa s(opSI, opB, nev, ncv, 0.37))
                if (ncv == -2)
                {
                    // Davidson: only nev is an argument
                    ROW("davidson", 2, DavidsonSymEigsSolver<DenseSymMatProd<double> > s(opSym, nev))
                }
#undef ROW
            }
    }
}

static void svd_rows()
{
    for (int m = 1; m <= 6; m++)
        for (int n = 1; n <= 6; n++)
        {
            Eigen::MatrixXd A(m, n);
            for (int i = 0; i < m; i++)
                for (int j = 0; j < n; j++)
                    A(i, j) = 1.0 / (1.0 + i + 2 * j) + (i == j ? 1.0 : 0.0);
            const int mn = std::min(m, n);
            for (int nc = -1; nc <= mn + 2; nc++)
                for (int ncv = -1; ncv <= mn + 2; ncv++)
                {
                    Line l("Svd");
                    l.i("m", m).i("n", n).i("ncomp", nc).i("ncv", ncv);
                    attempt(l, [&]() { PartialSVDSolver<Eigen::MatrixXd> s(A, nc, ncv); });
                }
        }
}

template <typename W, typename M>
static void shape_row(const char* name, const M& mat, int r, int c, int sparse)
{
    Line l("Shape");
    l.str("w", name).i("r", r).i("c", c).i("sp", sparse);
    attempt(l, [&]() { W w(mat); });
}

static void shape_rows()
{
    for (int r = 1; r <= 4; r++)
        for (int c = 1; c <= 4; c++)
        {
            Eigen::MatrixXd A = Eigen::MatrixXd::Zero(r, c);
            for (int i = 0; i < r; i++)
                for (int j = 0; j < c; j++)
                    A(i, j) = (i == j) ? 3.0 + i : 0.25 / (1 + i + j);
            if (r == c)
                A = ((A + A.transpose()) * 0.5).eval();
            Eigen::SparseMatrix<double> As = A.sparseView();
            shape_row<DenseSymShiftSolve<double> >("DenseSymShiftSolve", A, r, c, 0);
            shape_row<SparseSymShiftSolve<double> >("SparseSymShiftSolve", As, r, c, 1);
            shape_row<DenseGenRealShiftSolve<double> >("DenseGenRealShiftSolve", A, r, c, 0);
            shape_row<SparseGenRealShiftSolve<double> >("SparseGenRealShiftSolve", As, r, c, 1);
            shape_row<DenseGenComplexShiftSolve<double> >("DenseGenComplexShiftSolve", A, r, c, 0);
            shape_row<SparseGenComplexShiftSolve<double> >("SparseGenComplexShiftSolve", As, r, c, 1);
            shape_row<DenseCholesky<double> >("DenseCholesky", A, r, c, 0);
            shape_row<SparseCholesky<double> >("SparseCholesky", As, r, c, 1);
            shape_row<SparseRegularInverse<double> >("SparseRegularInverse", As, r, c, 1);
            {
                // two-matrix wrapper: A r x c against a square B of size r
                Eigen::MatrixXd Bq = Eigen::MatrixXd::Identity(r, r);
                Line l("Shape");
                l.str("w", "SymShiftInvert").i("r", r).i("c", c).i("sp", 0);
                attempt(l, [&]() { SymShiftInvert<double, Eigen::Dense, Eigen::Dense> w(A, Bq); });
            }
            {
                // LOBPCG: A r x c, X r x 1
                Eigen::SparseMatrix<double> X(r, 1);
                X.insert(0, 0) = 1.0;
                Line l("Shape");
                l.str("w", "LOBPCGSolver").i("r", r).i("c", c).i("sp", 1);
                attempt(l, [&]() { LOBPCGSolver<double> w(As, X); });
            }
        }
}

static void sigma_rows()
{
    const int n = 6;
    Eigen::MatrixXd A = sym_mat(n), B = Eigen::MatrixXd::Identity(n, n) * 2.0 + 0.1 * A;
    typedef SymShiftInvert<double, Eigen::Dense, Eigen::Dense> SI;
    SI op(A, B);
    op.set_shift(0.37);
    DenseSymMatProd<double> opB(B);
    const double sig[3] = {0.0, 0.37, -0.0};
    for (int s = 0; s < 3; s++)
    {
        {
            Line l("Sigma");
            l.str("mode", "buck").i("zero", sig[s] == 0.0 ? 1 : 0);
            attempt(l, [&]() { SymGEigsShiftSolver<SI, DenseSymMatProd<double>, GEigsMode::Buckling> e(op, opB, 2, 5, sig[s]); });
        }
        {
            Line l("Sigma");
            l.str("mode", "cay").i("zero", sig[s] == 0.0 ? 1 : 0);
            attempt(l, [&]() { SymGEigsShiftSolver<SI, DenseSymMatProd<double>, GEigsMode::Cayley> e(op, opB, 2, 5, sig[s]); });
        }
        {
            Line l("Sigma");
            l.str("mode", "gsi").i("zero", 0);   // sigma = 0 is legal in shift-and-invert mode (A itself must then be nonsingular)
            attempt(l, [&]() { SymGEigsShiftSolver<SI, DenseSymMatProd<double>, GEigsMode::ShiftInvert> e(op, opB, 2, 5, sig[s]); });
        }
    }
}

template <typename Solver, typename V>
static void init_rule_rows(const char* cls, int gen, Solver& eigs, const V& zero, const V& nonzero)
{
    {
        Line l("Init");
        l.str("cls", cls).i("zero", 1);
        attempt(l, [&]() { eigs.init(zero.data()); });
    }
    {
        Line l("Init");
        l.str("cls", cls).i("zero", 0);
        attempt(l, [&]() { eigs.init(nonzero.data()); });
    }
    const int maxits[3] = {0, 1, 30};
    for (int role = 0; role < 2; role++)
        for (int rule = 0; rule < 9; rule++)
        for (int mi = 0; mi < 3; mi++)
        {
            const int mx = maxits[mi];
            Line l("Rule");
            l.str("cls", cls).i("gen", gen).i("role", role).i("rule", rule).i("maxit", mx);
            // role 0: selection argument, role 1: sorting argument (with a supported selection); the rule must be
            // validated whether or not anything has converged (maxit = 0, 1)
            attempt(l, [&]() {
                eigs.init();
                if (role == 0)
                    eigs.compute((SortRule) rule, mx, 1e-8, gen ? SortRule::LargestMagn : SortRule::LargestAlge);
                else
                    eigs.compute(SortRule::LargestMagn, mx, 1e-8, (SortRule) rule);
            });
            // after a rejected call the object is still usable: a following init(); compute() succeeds
            Line l2("AfterRule");
            l2.str("cls", cls).i("gen", gen).i("role", role).i("rule", rule);
            attempt(l2, [&]() {
                eigs.init();
                eigs.compute(SortRule::LargestMagn, 200, 1e-8);
                if (eigs.info() != CompInfo::Successful)
                    throw std::runtime_error("not successful");
            });
        }
}

// every rule row for several (nev, ncv): the validation must not depend on how many values are sorted (nev = 1: a single value)
static void init_rule_dims(int nev, int ncv)
{
    const int n = 10;
    Eigen::MatrixXd A = sym_mat(n);
    Eigen::VectorXd z = Eigen::VectorXd::Zero(n), nz = Eigen::VectorXd::LinSpaced(n, 0.1, 1.0);
    {
        DenseSymMatProd<double> op(A);
        SymEigsSolver<DenseSymMatProd<double> > e(op, nev, ncv);
        init_rule_rows("sym", 0, e, z, nz);
    }
    {
        DenseSymShiftSolve<double> op(A);
        SymEigsShiftSolver<DenseSymShiftSolve<double> > e(op, nev, ncv, 0.37);
        init_rule_rows("symsh", 0, e, z, nz);
    }
    {
        Eigen::MatrixXcd AC = A.cast<std::complex<double> >();
        Eigen::VectorXcd zc = Eigen::VectorXcd::Zero(n), nzc = nz.cast<std::complex<double> >();
        DenseHermMatProd<std::complex<double> > op(AC);
        HermEigsSolver<DenseHermMatProd<std::complex<double> > > e(op, nev, ncv);
        init_rule_rows("herm", 0, e, zc, nzc);
    }
    {
        Eigen::MatrixXd G = A;
        G(0, 3) += 0.3;
        DenseGenMatProd<double> op(G);
        GenEigsSolver<DenseGenMatProd<double> > e(op, nev, ncv);
        init_rule_rows("gen", 1, e, z, nz);
    }
    {
        Eigen::MatrixXd G = A;
        G(0, 3) += 0.3;
        DenseGenRealShiftSolve<double> op(G);
        GenEigsRealShiftSolver<DenseGenRealShiftSolve<double> > e(op, nev, ncv, 0.37);
        init_rule_rows("genrs", 1, e, z, nz);
    }
    {
        Eigen::MatrixXd G = A;
        G(0, 3) += 0.3;
        DenseGenComplexShiftSolve<double> op(G);
        GenEigsComplexShiftSolver<DenseGenComplexShiftSolve<double> > e(op, nev, ncv, 0.37, 0.8);
        init_rule_rows("gencs", 1, e, z, nz);
    }
    {
        Eigen::MatrixXd B = Eigen::MatrixXd::Identity(n, n) * 2.0 + 0.1 * A;
        DenseSymMatProd<double> op(A);
        DenseCholesky<double> bop(B);
        SymGEigsSolver<DenseSymMatProd<double>, DenseCholesky<double>, GEigsMode::Cholesky> e(op, bop, nev, ncv);
        init_rule_rows("gchol", 0, e, z, nz);
    }
}

static void init_rule()
{
    init_rule_dims(2, 6);
    init_rule_dims(1, 4);
    init_rule_dims(3, 8);
}

template <typename T>
void dispatch(const Desc& d)
{
    {
        Line l("Reset");
        l.str("desc", d.raw);
        out().put(l);
    }
    // warm up lazily allocated library state so that leak deltas are meaningful
    {
        Eigen::MatrixXd A = sym_mat(5);
        DenseSymMatProd<double> op(A);
        SymEigsSolver<DenseSymMatProd<double> > e(op, 2, 4);
        e.init();
        e.compute();
        try
        {
            throw std::invalid_argument("warm up");
        }
        catch (...)
        {
        }
    }
    const std::string part = d.s("part", "all");
    if (part == "all" || part == "ctor")
        ctor_rows((int) d.i("nmax", 12));
    if (part == "all" || part == "svd")
        svd_rows();
    if (part == "all" || part == "shape")
        shape_rows();
    if (part == "all" || part == "sigma")
        sigma_rows();
    if (part == "all" || part == "rule")
        init_rule();
    Line e("EndArgs");
    e.i("nmax", d.i("nmax", 12));
    out().put(e);
}
#define VH_ONLY 2
#include "drv_main.h"
