// Driver for the solvers with their own loops: Davidson (C15), partial SVD (C16), LOBPCG (C17); each also supplies the
// selection clause of C04 for its family.  Public API only (plus guarded friend access to LOBPCG's iterate block);
// all magnitudes are measured in long double and judged by the specification (spec/TraceAux.tla).
#include "alloc_guard.h"
#include "vh.h"
#include "gen.h"
#include <memory>
namespace Spectra {
namespace verif {
struct Access
{
    template <typename S> static auto lobpcg_X(S& s) -> decltype((s.X)) { return s.X; }
    template <typename S> static Eigen::Index jd_space(const S& s) { return s.m_search_space.size(); }
};
}  // namespace verif
}  // namespace Spectra
#include <Spectra/DavidsonSymEigsSolver.h>
#include <Spectra/MatOp/DenseSymMatProd.h>
#include <Spectra/MatOp/SparseSymMatProd.h>
#include <Spectra/contrib/PartialSVDSolver.h>
#include <Spectra/contrib/LOBPCGSolver.h>

using namespace vh;
using namespace Spectra;

template <typename V>
static ll digest_of(const V& v)
{
    Digest g;
    g.mat(v);
    return g.word30();
}

// hook sink that records only the events of one name (the contrib solvers run inner Lanczos solvers whose events do not belong here)
struct OnlySink : public Spectra::verif::Sink
{
    const char* only;
    explicit OnlySink(const char* name) : only(name) {}
    void event(const char* name, const void*, const long long* vals, int n)
    {
        if (strcmp(name, only))
            return;
        Line l(name);
        l.arr("v", vals, n);
        out().put(l);
    }
};

// records the active block size reported by every LobIter event (used to find out after how many iterations a run is partly converged)
struct BlockSizeRecorder : public Spectra::verif::Sink
{
    std::vector<int> sizes;
    void event(const char* name, const void*, const long long* vals, int n)
    {
        if (!strcmp(name, "LobIter") && n >= 2)
            sizes.push_back((int) vals[1]);
    }
};

// =============================================================================================== C16: partial SVD
template <typename MatrixType, typename Dense>
static void svd_observe(Line& l, PartialSVDSolver<MatrixType>& svd, const Dense& A, const MatL& AL, const VecL& sref, int ncomp, ll nconv)
{
    typedef Eigen::Matrix<double, Eigen::Dynamic, Eigen::Dynamic> Mat;
    Eigen::VectorXd sv = svd.singular_values();
    Mat U = svd.matrix_U(ncomp), V = svd.matrix_V(ncomp);
    const int k = (int) sv.size();
    const LD nA = AL.norm();
    l.i("nconv", nconv).i("nsv", k).i("ucols", (ll) U.cols()).i("vcols", (ll) V.cols()).i("urows", (ll) U.rows()).i("vrows", (ll) V.rows());
    l.i("fin", all_finite(sv) ? 1 : 0).i("ffin", (all_finite(U) && all_finite(V)) ? 1 : 0);
    int nonneg = 1, noninc = 1;
    for (int i = 0; i < k; i++)
    {
        if (!(sv[i] >= 0))
            nonneg = 0;
        if (i + 1 < k && !(sv[i] >= sv[i + 1]))
            noninc = 0;
    }
    l.i("nonneg", nonneg).i("noninc", noninc);
    // agreement with the leading reference singular values, relative to ||A||
    std::vector<ll> qd, qrel;
    for (int i = 0; i < k; i++)
    {
        qd.push_back(q(std::fabs((LD) sv[i] - sref[i]) / nA));
        qrel.push_back(q(sref[i] / nA));
    }
    l.arr("qdist", qd).arr("qsrel", qrel);
    const int c = (int) std::min<Eigen::Index>(std::min(U.cols(), V.cols()), k);
    if (c > 0)
    {
        MatL UL = U.leftCols(c).cast<LD>(), VL = V.leftCols(c).cast<LD>();
        VecL sl = sv.head(c).cast<LD>();
        l.i("qUU", q((UL.transpose() * UL - MatL::Identity(c, c)).norm()));
        l.i("qVV", q((VL.transpose() * VL - MatL::Identity(c, c)).norm()));
        l.i("qAV", q((AL * VL - UL * sl.asDiagonal()).norm() / nA));
        l.i("qAtU", q((AL.transpose() * UL - VL * sl.asDiagonal()).norm() / nA));
    }
    else
        l.i("qUU", QZERO).i("qVV", QZERO).i("qAV", QZERO).i("qAtU", QZERO);
    // column counts for k in {0, 1, nconv, nconv + 2}
    std::vector<ll> ks, uc, vc;
    ll kk[4] = {0, 1, nconv, nconv + 2};
    for (int i = 0; i < 4; i++)
    {
        ks.push_back(kk[i]);
        uc.push_back((ll) svd.matrix_U(kk[i]).cols());
        vc.push_back((ll) svd.matrix_V(kk[i]).cols());
    }
    l.arr("ks", ks).arr("uc", uc).arr("vc", vc);
    // digest of everything returned (for the "always describes the most recent compute()" clause)
    Digest g;
    g.mat(sv);
    g.mat(U);
    g.mat(V);
    l.i("dg", g.word30());
    (void) A;
}

template <typename MatrixType>
static void svd_case(const Desc& d, const MatL& AL0, int ncomp, int ncv, const char* store, int rm)
{
    typedef Eigen::Matrix<double, Eigen::Dynamic, Eigen::Dynamic> Mat;
    Mat Ad = AL0.cast<double>();
    MatL AL = Ad.cast<LD>();
    MatrixType A = MatrixType(Ad.sparseView().template cast<double>());
    const int m = (int) Ad.rows(), n = (int) Ad.cols();
    Eigen::JacobiSVD<MatL> ref(AL);
    VecL sref = ref.singularValues();
    // history: compute(a); [observe]; compute(b); [observe]  -- and a fresh solver for compute(b)
    const ll maxit_a = d.i("maxa", 1000), maxit_b = d.i("maxb", 1000);
    const double tol_a = std::pow(10.0, (double) d.i("tola", -10)), tol_b = std::pow(10.0, (double) d.i("tolb", -10));
    PartialSVDSolver<MatrixType> svd(A, ncomp, ncv);
    for (int call = 0; call < 2; call++)
    {
        const ll mx = call ? maxit_b : maxit_a;
        const double tl = call ? tol_b : tol_a;
        ll nconv = (ll) svd.compute(mx, tl);
        Line l("Svd");
        l.str("st", store).i("rm", rm).i("m", m).i("n", n).i("ncomp", ncomp).i("ncv", ncv).i("call", call + 1).i("maxit", mx).i("qtol", q((LD) tl));
        l.i("qn", q((LD) std::max(m, n))).i("rank", (ll) d.i("rank", std::min(m, n)));
        svd_observe(l, svd, A, AL, sref, ncomp, nconv);
        // the same call on a fresh object
        PartialSVDSolver<MatrixType> fresh(A, ncomp, ncv);
        ll nconv_f = (ll) fresh.compute(mx, tl);
        Digest g;
        g.mat(fresh.singular_values());
        g.mat(fresh.matrix_U(ncomp));
        g.mat(fresh.matrix_V(ncomp));
        l.i("fdg", g.word30()).i("fnconv", nconv_f);
        // increasing-k call sequence on the fresh object of a third solver: matrix_U(1) first, then matrix_V(ncomp), matrix_U(ncomp)
        {
            PartialSVDSolver<MatrixType> inc(A, ncomp, ncv);
            ll nc3 = (ll) inc.compute(mx, tl);
            ll u1 = (ll) inc.matrix_U(1).cols();
            ll vall = (ll) inc.matrix_V(ncomp).cols();
            ll uall = (ll) inc.matrix_U(ncomp).cols();
            l.i("inc_nconv", nc3).i("inc_u1", u1).i("inc_v", vall).i("inc_u", uall);
        }
        out().put(l);
    }
}

// every case has its own generator (seed, case) and its own Reset line, so that a case is replayable on its own
// (descriptor "mode=..;seed=S;case=C") and a recorded finding names exactly one case
static bool case_selected(const Desc& d, int c, const char* mode)
{
    if (d.has("case") && (int) d.i("case") != c)
        return false;
    Line l("Reset");
    l.str("desc", std::string("mode=") + mode + ";seed=" + std::to_string(d.i("seed", 1)) + ";case=" + std::to_string(c) + (d.has("kfix") ? ";kfix=" + d.s("kfix") : "") +
                      (d.has("dec") ? ";dec=" + d.s("dec") : ""));
    out().put(l);
    return true;
}

static void mode_svd(const Desc& d)
{
    const int count = d.has("case") ? (d.i("case") < 1000 ? (int) d.i("case") + 1 : 0) : (int) d.i("count", 30);
    for (int c = 0; c < count; c++)
    {
        if (!case_selected(d, c, "svd"))
            continue;
        Rng r((uint64_t) d.i("seed", 1) * 613 + 7 + 7919ULL * (uint64_t) c);
        int m = 4 + r.below(30), n = 4 + r.below(30);
        if (c % 3 == 0)
            n = m;
        const int mn = std::min(m, n);
        // prescribed singular values: well separated leading part, optional exact rank deficiency
        int rank = mn;
        if (c % 5 == 4)
            rank = 1 + r.below(std::max(1, mn / 2));
        VecL s = VecL::Zero(mn);
        for (int i = 0; i < rank; i++)
            s[i] = (LD)(rank - i) + 0.25L * r.uni();
        const bool close = (c % 6 == 2) && mn >= 8;
        if (close)
        {
            // two close wanted singular values: with a small maxit the converged set can have a hole (5th converges before the 4th)
            const LD lead[5] = {3.0L, 2.8L, 2.6L, 2.40L, 2.39L};
            for (int i = 0; i < mn; i++)
                s[i] = i < 5 ? lead[i] : 1.0L / (LD)(i - 3);
            rank = mn;
        }
        MatL U = rand_orth(m, r), V = rand_orth(n, r);
        MatL A = U.leftCols(mn) * s.asDiagonal() * V.leftCols(mn).transpose();
        int ncomp = 1 + r.below(std::min(4, mn - 1));
        if (rank < mn && mn - 1 > rank)
            ncomp = std::min(mn - 1, rank + 1 + r.below(2));   // ask for more triplets than the rank: zero singular values are requested
        int ncv = std::min(mn, ncomp + 2 + r.below(6));
        if (ncv <= ncomp)
            ncv = ncomp + 1;
        Desc dd = d;
        dd.kv["rank"] = std::to_string(rank);
        // second compute with different maxit / tol (cache clause); sometimes a first run that cannot converge
        dd.kv["maxa"] = (c % 4 == 1) ? "1" : "1000";
        dd.kv["tola"] = (c % 2) ? "-6" : "-10";
        dd.kv["maxb"] = "1000";
        dd.kv["tolb"] = "-10";
        if (close)
        {
            ncomp = 5;
            ncv = std::min(mn, 6 + r.below(6));
            dd.kv["maxa"] = std::to_string(3 + r.below(30));   // partial convergence
            dd.kv["maxb"] = std::to_string(3 + r.below(30));
        }
        const int form = c % 3;
        if (form == 0)
            svd_case<Eigen::MatrixXd>(dd, A, ncomp, ncv, "dense", 0);
        else if (form == 1)
            svd_case<Eigen::Matrix<double, Eigen::Dynamic, Eigen::Dynamic, Eigen::RowMajor> >(dd, A, ncomp, ncv, "dense", 1);
        else
            svd_case<Eigen::SparseMatrix<double> >(dd, A, ncomp, ncv, "sparse", 0);
    }
}

// partial convergence sweep: two close wanted singular values, every maxit in 1..40: the converged set passes through
// configurations with a hole (a later triplet converges before an earlier one); whatever is returned must be consistent
static void svd_sweep(const Desc& d)
{
    for (int rep = 0; rep < 2; rep++)
    {
        if (!case_selected(d, 1000 + rep, "svd"))
            continue;
        Rng r((uint64_t) d.i("seed", 1) * 91 + 5 + 7919ULL * (uint64_t) rep);
        const int m = rep ? 40 + r.below(20) : 60 + r.below(30), n = rep ? 60 + r.below(30) : 40 + r.below(20);
        const int mn = std::min(m, n);
        VecL s(mn);
        // two close wanted values followed by a dense tail (1.925, 1.91, ...): slow enough that for a window of one or two restarts the
        // 5th triplet has converged and the 4th has not
        const LD lead[7] = {3.0L, 2.8L, 2.6L, 2.40L, 2.39L, 1.925L, 1.91L};
        for (int i = 0; i < mn; i++)
            s[i] = i < 7 ? lead[i] : 1.9L * std::pow(0.97L, (LD)(i - 6));
        MatL U = rand_orth(m, r), V = rand_orth(n, r);
        MatL AL0 = U.leftCols(mn) * s.asDiagonal() * V.leftCols(mn).transpose();
        Eigen::MatrixXd A = AL0.cast<double>();
        MatL AL = A.cast<LD>();
        Eigen::JacobiSVD<MatL> ref(AL);
        VecL sref = ref.singularValues();
        for (int ncv = 6; ncv <= 11; ncv++)
        for (int mx = 1; mx <= 40; mx++)
        {
            PartialSVDSolver<Eigen::MatrixXd> svd(A, 5, ncv);
            ll nconv = (ll) svd.compute(mx, 1e-10);
            Line l("Svd");
            l.str("st", "dense").i("rm", 0).i("m", m).i("n", n).i("ncomp", 5).i("ncv", ncv).i("call", 1).i("maxit", mx).i("qtol", q((LD) 1e-10));
            l.i("qn", q((LD) std::max(m, n))).i("rank", mn);
            // the returned singular values need not be the leading ones when the run is partial: match each to the nearest reference value
            Eigen::VectorXd sv = svd.singular_values();
            VecL near(sv.size());
            for (int i = 0; i < (int) sv.size(); i++)
            {
                int bi = 0;
                for (int j = 1; j < mn; j++)
                    if (std::fabs(sref[j] - (LD) sv[i]) < std::fabs(sref[bi] - (LD) sv[i]))
                        bi = j;
                near[i] = sref[bi];
            }
            svd_observe(l, svd, A, AL, near, 5, nconv);
            l.i("fdg", 0).i("fnconv", nconv).i("inc_nconv", 0).i("inc_u1", 0).i("inc_v", 0).i("inc_u", 0).i("partial", 1);
            out().put(l);
        }
    }
}

// C16, repeated leading singular value (multiplicity `mult`): a single-vector Lanczos process finds further copies of a multiple
// eigenvalue only through rounding errors; descriptor mode=svdmult;seed=S;mult=M;ncv=K
static void mode_svdmult(const Desc& d)
{
    {
        Line l("Reset");
        l.str("desc", d.raw);
        out().put(l);
    }
    Rng r((uint64_t) d.i("seed", 1) * 389 + 17);
    const int m = 40 + r.below(20), n = 25;
    const int mult = (int) d.i("mult", 5);
    VecL s(n);
    for (int i = 0; i < n; i++)
        s[i] = i < mult ? 5.0L : 4.0L - 0.1L * (LD)(i - mult);
    MatL U = rand_orth(m, r), V = rand_orth(n, r);
    MatL A = U.leftCols(n) * s.asDiagonal() * V.transpose();
    Desc dd = d;
    dd.kv["rank"] = std::to_string(n);
    svd_case<Eigen::MatrixXd>(dd, A, mult + 1, (int) d.i("ncv", 12), "dense", 0);
}

// C16, generated behaviours: one PartialSVDSolver driven along a call sequence exported by TLC from spec/MC_SVDSeq.tla
// (tools/krygen.py): C<a> compute with argument set a, U<k> / V<k> matrix_U(k) / matrix_V(k), S singular_values().
// After every call a reference object executes ONLY "compute(args of the most recent compute); the same call", and the
// digests of both answers are logged; the specification compares them and tracks nconv / the cache through SV_* operators.
template <typename MatrixType>
static void svdseq_case(const Desc& d, const MatL& AL0, int ncomp, int ncv, const char* store)
{
    typedef Eigen::Matrix<double, Eigen::Dynamic, Eigen::Dynamic> Mat;
    Mat Ad = AL0.cast<double>();
    MatrixType A = MatrixType(Ad.sparseView().template cast<double>());
    const int m = (int) Ad.rows(), n = (int) Ad.cols();
    const ll mx[3] = {1000, 1 + (ll) (d.i("seed", 1) % 7), 1000};
    const double tl[3] = {1e-10, 1e-10, 1e-3};
    PartialSVDSolver<MatrixType> svd(A, ncomp, ncv);
    std::vector<std::string> ops = d.list("ops");
    int lastarg = -1;
    ll nconv = 0;
    for (size_t oi = 0; oi < ops.size(); oi++)
    {
        const char c = ops[oi][0];
        const ll a = ops[oi].size() > 1 ? atoll(ops[oi].c_str() + 1) : 0;
        Line l("SvdCall");
        l.str("op", std::string(1, c)).i("a", a).i("i", (ll) oi + 1).i("m", m).i("n", n).i("ncomp", ncomp).str("st", store);
        Digest g, rg;
        ll rows = 0, cols = 0, rrows = 0, rcols = 0, rnconv = 0;
        int thr = 0;
        try
        {
            std::unique_ptr<PartialSVDSolver<MatrixType> > ref(new PartialSVDSolver<MatrixType>(A, ncomp, ncv));
            if (c == 'C')
            {
                lastarg = (int) a;
                nconv = (ll) svd.compute(mx[a], tl[a]);
                rnconv = (ll) ref->compute(mx[a], tl[a]);
                g.i64(nconv);
                rg.i64(rnconv);
            }
            else
            {
                rnconv = (ll) ref->compute(mx[lastarg], tl[lastarg]);
                if (c == 'S')
                {
                    Eigen::VectorXd v = svd.singular_values(), rv = ref->singular_values();
                    g.mat(v);
                    rg.mat(rv);
                    rows = (ll) v.size();
                    cols = 1;
                    rrows = (ll) rv.size();
                    rcols = 1;
                }
                else
                {
                    Mat X = c == 'U' ? svd.matrix_U((Eigen::Index) a) : svd.matrix_V((Eigen::Index) a);
                    Mat R = c == 'U' ? ref->matrix_U((Eigen::Index) a) : ref->matrix_V((Eigen::Index) a);
                    g.mat(X);
                    rg.mat(R);
                    rows = (ll) X.rows();
                    cols = (ll) X.cols();
                    rrows = (ll) R.rows();
                    rcols = (ll) R.cols();
                }
            }
        }
        catch (const std::exception& e)
        {
            thr = 1;
        }
        l.i("thr", thr).i("nconv", nconv).i("rnconv", rnconv).i("rows", rows).i("cols", cols).i("rrows", rrows).i("rcols", rcols).i("dg", g.word30()).i("rdg", rg.word30());
        out().put(l);
    }
}

static void mode_svdseq(const Desc& d)
{
    {
        Line l("Reset");
        l.str("desc", d.raw);
        out().put(l);
    }
    Rng r((uint64_t) d.i("seed", 1) * 733 + 3);
    const int shape = (int) d.i("shape", 0);   // 0 tall, 1 wide, 2 square
    int m = 12 + r.below(14), n = 12 + r.below(14);
    if (shape == 0 && m <= n)
        std::swap(m, n), m += 1;
    if (shape == 1 && m >= n)
        std::swap(m, n), n += 1;
    if (shape == 2)
        n = m;
    const int mn = std::min(m, n);
    // two close wanted singular values: the small-maxit argument set leaves the run partly converged
    VecL s(mn);
    const LD lead[4] = {3.0L, 2.6L, 2.59L, 2.0L};
    for (int i = 0; i < mn; i++)
        s[i] = i < 4 ? lead[i] : 1.0L / (LD)(i - 2);
    MatL U = rand_orth(m, r), V = rand_orth(n, r);
    MatL A = U.leftCols(mn) * s.asDiagonal() * V.leftCols(mn).transpose();
    const int ncomp = 3, ncv = 5 + r.below(4);
    const int form = (int) d.i("form", 0);
    if (form == 0)
        svdseq_case<Eigen::MatrixXd>(d, A, ncomp, ncv, "dense");
    else if (form == 1)
        svdseq_case<Eigen::Matrix<double, Eigen::Dynamic, Eigen::Dynamic, Eigen::RowMajor> >(d, A, ncomp, ncv, "rowmajor");
    else
        svdseq_case<Eigen::SparseMatrix<double> >(d, A, ncomp, ncv, "sparse");
}

// partial convergence with a REPEATED leading singular value (10, 10, 5, 4.5, 4.4, ...): the second copy of the tie emerges late and
// lands between Ritz values that have already converged, so that the converged flags pass through [1,0,1] / [0,1,0]; every ncv in
// 5..8 and every maxit in 0..39, four matrices.  Whatever is returned must be consistent (the values are matched to the nearest reference value).
static void svd_sweep_tie(const Desc& d)
{
    for (int rep = 0; rep < 4; rep++)
    {
        if (!case_selected(d, 2000 + rep, "svd"))
            continue;
        Rng r((uint64_t) d.i("seed", 1) * 57 + 9 + 7919ULL * (uint64_t) rep);
        const int m = (rep % 2) ? 30 : 60, n = (rep % 2) ? 60 : 30;
        const int mn = std::min(m, n);
        VecL s(mn);
        for (int i = 0; i < mn; i++)
            s[i] = i < 2 ? 10.0L : (i == 2 ? 5.0L : 4.5L - 0.1L * (LD)(i - 3));
        MatL U = rand_orth(m, r), V = rand_orth(n, r);
        MatL AL0 = U.leftCols(mn) * s.asDiagonal() * V.leftCols(mn).transpose();
        Eigen::MatrixXd A = AL0.cast<double>();
        MatL AL = A.cast<LD>();
        Eigen::JacobiSVD<MatL> ref(AL);
        VecL sref = ref.singularValues();
        for (int ncv = 5; ncv <= 8; ncv++)
            for (int mx = 0; mx <= 39; mx++)
            {
                PartialSVDSolver<Eigen::MatrixXd> svd(A, 3, ncv);
                ll nconv = (ll) svd.compute(mx, 1e-10);
                Line l("Svd");
                l.str("st", "dense").i("rm", 0).i("m", m).i("n", n).i("ncomp", 3).i("ncv", ncv).i("call", 1).i("maxit", mx).i("qtol", q((LD) 1e-10));
                l.i("qn", q((LD) std::max(m, n))).i("rank", mn);
                Eigen::VectorXd sv = svd.singular_values();
                VecL near(sv.size());
                for (int i = 0; i < (int) sv.size(); i++)
                {
                    int bi = 0;
                    for (int j = 1; j < mn; j++)
                        if (std::fabs(sref[j] - (LD) sv[i]) < std::fabs(sref[bi] - (LD) sv[i]))
                            bi = j;
                    near[i] = sref[bi];
                }
                svd_observe(l, svd, A, AL, near, 3, nconv);
                l.i("fdg", 0).i("fnconv", nconv).i("inc_nconv", 0).i("inc_u1", 0).i("inc_v", 0).i("inc_u", 0).i("partial", 1);
                out().put(l);
            }
    }
}

// =============================================================================================== C17: LOBPCG
static void mode_lobpcg(const Desc& d)
{
    typedef Eigen::SparseMatrix<double> SpMat;
    typedef Eigen::MatrixXd Mat;
    const int count = d.has("case") ? (int) d.i("case") + 1 : (int) d.i("count", 20);
    for (int c = 0; c < count; c++)
    {
        if (!case_selected(d, c, "lobpcg"))
            continue;
        Rng r((uint64_t) d.i("seed", 1) * 389 + 3 + 7919ULL * (uint64_t) c);
        // block size k = 1 is a recorded finding (the inner generalized solver is built with ncv <= nev and throws): it is
        // exercised only by the fixed descriptor with kfix=1
        // c % 5 == 2: history 4 below (a second compute() that starts with part of the block already converged) needs k >= 3
        const bool h4 = !d.has("kfix") && (d.has("lobhist") ? d.i("lobhist") == 4 : c % 5 == 2);
        const int k = d.has("kfix") ? (int) d.i("kfix") : (h4 ? 3 + r.below(3) : 2 + r.below(2));
        const int n = 5 * k + 6 + r.below(30);
        const bool withB = c % 2 == 1, withT = c % 3 == 2;
        // sparse symmetric A with well separated smallest eigenvalues: diag(1..n)*g + small symmetric coupling; SPD B: tridiagonal
        MatL A = MatL::Zero(n, n), B = MatL::Identity(n, n);
        const bool indef = c % 4 == 3;
        // c % 8 == 5: the whole pencil at a small scale (A * 1e-9, the tolerance scaled with it): nothing in the iteration may depend on
        // an absolute threshold
        const LD scale = d.has("lobscale") ? std::pow((LD) 10, (LD) d.i("lobscale")) : (c % 8 == 5 ? 1e-9L : 1.0L);
        for (int i = 0; i < n; i++)
        {
            A(i, i) = (LD)(i + 1) * 2.0L - (indef ? 7.0L : 0.0L);
            if (i + 1 < n)
                A(i, i + 1) = A(i + 1, i) = 0.3L * r.sym();
            if (i + 3 < n && r.below(3) == 0)
                A(i, i + 3) = A(i + 3, i) = 0.2L * r.sym();
        }
        if (withB)
            for (int i = 0; i < n; i++)
            {
                B(i, i) = 2.0L + 0.5L * r.uni();
                if (i + 1 < n)
                    B(i, i + 1) = B(i + 1, i) = 0.4L * r.sym();
            }
        A *= scale;
        Mat Ad = A.cast<double>(), Bd = B.cast<double>();
        MatL AL = Ad.cast<LD>(), BL = Bd.cast<LD>();
        SpMat As = Ad.sparseView(), Bs = Bd.sparseView();
        // random full-rank initial block
        Mat X0(n, k);
        for (int i = 0; i < n; i++)
            for (int j = 0; j < k; j++)
                X0(i, j) = (double) r.sym();
        SpMat X0s = X0.sparseView();
        LOBPCGSolver<double> solver(As, X0s);
        if (withB)
            solver.setB(Bs);
        if (withT)
        {
            SpMat T(n, n);
            for (int i = 0; i < n; i++)
                T.insert(i, i) = 1.0 / std::max(0.5, std::fabs(Ad(i, i)));
            T.makeCompressed();
            solver.setPreconditioner(T);
        }
        const int maxit = (c % 7 == 6) ? 2 : 200;
        // c % 6 == 4: a tight tolerance (tol * n below sqrt(eps)): the active residual / direction blocks get B-norms below 1e-8
        const double tol = ((c % 6 == 4) ? 1e-10 : ((c % 2) ? 1e-6 : 1e-7)) * (double) scale;
        // one compute() on the object and everything a caller can observe afterwards, against the pencil (AL_, BL_) that is in force
        auto run_call = [&](const MatL& AL_, const MatL& BL_, int maxit_, double tol_, int withB_, int call, int nothrowclaim = 0)
        {
            int thr = 0;
            {
                Line b("LobBegin");
                b.i("n", n).i("k", k);
                out().put(b);
            }
            // hook events of the iteration (LobIter) go into the trace
            OnlySink lobsink("LobIter");
            Spectra::verif::sink() = &lobsink;
            try
            {
                solver.compute(maxit_, tol_);
            }
            catch (const std::exception& ex)
            {
                thr = 1;
                if (d.i("dbg", 0))
                    fprintf(stderr, "lobpcg call %d threw: %s\n", call, ex.what());
            }
            Spectra::verif::sink() = NULL;
            if (thr)
            {
                Line l("Lob");
                l.i("n", n).i("k", k).i("qn", q((LD) n)).i("withB", withB_).i("withT", withT).i("maxit", maxit_).i("info", -1).i("thr", 1).i("call", call).i("nc", nothrowclaim);
                out().put(l);
                return;
            }
            // reference: generalized symmetric eigenproblem in long double
            Eigen::GeneralizedSelfAdjointEigenSolver<MatL> ref(AL_, BL_);
            VecL lref = ref.eigenvalues();
            Eigen::VectorXd ev = solver.eigenvalues();
            Mat Xp = solver.eigenvectors();
            Mat R = solver.residuals();
            Mat Xit = Mat(Spectra::verif::Access::lobpcg_X(solver));
            Line l("Lob");
            l.i("n", n).i("k", k).i("qn", q((LD) n)).i("withB", withB_).i("withT", withT).i("maxit", maxit_).i("info", (ll) solver.info()).i("qtol", q((LD) tol_ * n));
            l.i("thr", 0).i("call", call).i("nc", nothrowclaim).i("nev", (ll) ev.size()).i("xrows", (ll) Xp.rows()).i("xcols", (ll) Xp.cols()).i("rrows", (ll) R.rows()).i("rcols", (ll) R.cols());
            l.i("fin", (all_finite(ev) && all_finite(Xp) && all_finite(R)) ? 1 : 0);
            const int kk = (int) std::min<Eigen::Index>(ev.size(), k);
            // eigenvalues: ascending (exact ranks), distance to the k smallest reference eigenvalues
            int asc = 1;
            std::vector<ll> qd;
            LD spread = lref[n - 1] - lref[0];
            for (int i = 0; i < kk; i++)
            {
                if (i + 1 < kk && !(ev[i] <= ev[i + 1]))
                    asc = 0;
                qd.push_back(q(std::fabs((LD) ev[i] - lref[i]) / spread));
            }
            l.i("asc", asc).arr("qdist", qd).i("qspread", q(spread));
            // X = eigenvectors() if it has the documented shape, else the iterate block (friend access)
            const bool shape_ok = Xp.rows() == n && Xp.cols() == k;
            const Mat& X = shape_ok ? Xp : Xit;
            l.i("xsrc", shape_ok ? 1 : 0);
            if (X.rows() == n && X.cols() == k && (int) ev.size() == k)
            {
                MatL XL = X.cast<LD>();
                VecL el = ev.cast<LD>();
                l.i("qBorth", q((XL.transpose() * BL_ * XL - MatL::Identity(k, k)).norm()));
                MatL Rtrue = AL_ * XL - BL_ * XL * el.asDiagonal();
                l.i("qResId", R.rows() == n && R.cols() == k ? q((R.cast<LD>() - Rtrue).norm() / (AL_.norm() + BL_.norm())) : QNAN);
                LD rmax = 0;
                for (int j = 0; j < k; j++)
                    rmax = std::max(rmax, Rtrue.col(j).norm());
                l.i("qResMax", q(rmax));
            }
            else
                l.i("qBorth", QNAN).i("qResId", QNAN).i("qResMax", QNAN);
            out().put(l);
        };
        // history 4: the first call is stopped after a few iterations (the smallest pairs converge first), the second call starts with part of
        // the block already below the tolerance: its first Rayleigh-Ritz problem has an active block smaller than k.  (If a single column is
        // left the inner solver throws - the recorded k = 1 finding - so an exception of that second call is not claimed, results are.)
        if (h4)
        {
            // a probe object with the same inputs tells after how many iterations the block is PARTLY converged (2 <= active columns < k)
            int m1 = 6 + 4 * (c % 4) + (c / 5) % 3;
            {
                LOBPCGSolver<double> probe(As, X0s);
                if (withB)
                    probe.setB(Bs);
                if (withT)
                {
                    SpMat T(n, n);
                    for (int i = 0; i < n; i++)
                        T.insert(i, i) = 1.0 / std::max(0.5, std::fabs(Ad(i, i)));
                    T.makeCompressed();
                    probe.setPreconditioner(T);
                }
                BlockSizeRecorder rec;
                Spectra::verif::sink() = &rec;
                try
                {
                    probe.compute(200, tol);
                }
                catch (const std::exception&)
                {
                }
                Spectra::verif::sink() = NULL;
                for (size_t jj = 1; jj < rec.sizes.size(); jj++)
                    if (rec.sizes[jj] >= 2 && rec.sizes[jj] < k)
                    {
                        m1 = (int) jj;
                        break;
                    }
            }
            run_call(AL, BL, m1, tol, withB, 1);
            run_call(AL, BL, 200, tol, withB, 2, 1);
            continue;
        }
        run_call(AL, BL, maxit, tol, withB, 1);
        // later calls on the same object (whatever compute() reports describes THIS call and the pencil in force now):
        //   hist 1: a second compute() with a tolerance that cannot be met in one iteration
        //   hist 2: setB(B2) with another positive-definite B2, then compute() again
        //   hist 3 (only on request, lobhist=3): the same compute() again.  Not part of the profiles: when a single column is left in the
        //   active block at iteration 0 the inner Rayleigh-Ritz solver is built with ncv <= nev and throws - the recorded k = 1 finding
        //   reached through a call history (see DESIGN.md)
        const int hist = d.has("lobhist") ? (int) d.i("lobhist") : (c % 5 == 1 ? 1 : (c % 5 == 3 ? 2 : 0));   // (c % 5 == 2: history 4, above)
        if (hist == 1)
            run_call(AL, BL, 1, 1e-15 * (double) scale, withB, 2);
        else if (hist == 2)
        {
            MatL B2 = MatL::Identity(n, n);
            for (int i = 0; i < n; i++)
            {
                B2(i, i) = 3.0L + 2.0L * r.uni();
                if (i + 1 < n)
                    B2(i, i + 1) = B2(i + 1, i) = 0.7L * r.sym();
            }
            Mat B2d = B2.cast<double>();
            MatL B2L = B2d.cast<LD>();
            SpMat B2s = B2d.sparseView();
            solver.setB(B2s);
            run_call(AL, B2L, maxit, tol, 1, 2);
        }
        else if (hist == 3)
            run_call(AL, BL, maxit, tol, withB, 2);
    }
}


// =============================================================================================== C15: Davidson
template <typename OpType, typename MatT>
static void davidson_case(const Desc& d, const MatL& AL0, const char* store, int nev, int rule, double tol, int maxit, int guess, Rng& r, int init, int maxs, int corr, int twice = 0, int tri = 0)
{
    typedef Eigen::MatrixXd Mat;
    Mat Ad = AL0.cast<double>();
    MatL AL = Ad.cast<LD>();
    const int n = (int) Ad.rows();
    // tri = 1 / 2: only the lower / upper triangle of the matrix handed to the wrapper is valid (the other one holds garbage); the wrapper
    // is instantiated with the matching Uplo option and must never read the other triangle
    Mat Ast = Ad;
    for (int i = 0; i < n && tri; i++)
        for (int j = 0; j < n; j++)
            if ((tri == 1 && j > i) || (tri == 2 && j < i))
                Ast(i, j) = 7.5 + 0.25 * ((i + 2 * j) % 5);
    MatT Am = MatT(Ast.sparseView().template cast<double>());
    OpType op(Am);
    {
        // the parameters the search-space bookkeeping starts from (constructor arguments as written by the caller; 0 = default /
        // not set): the specification derives the values actually used (Davidson.tla, D_Params) and replays the JDIter hook events
        Line b("DavBegin");
        b.i("n", n).i("nev", nev).i("i0", init > 0 ? init : 2 * nev).i("m0", init > 0 ? maxs : 10 * nev).i("c0", corr > 0 ? corr : 0);
        b.i("gcols", (guess || twice == 2 || d.i("twice", 0) == 2) ? std::max(nev, 2) + 1 : 0);
        out().put(b);
    }
    // hook events of the Davidson loop (JDIter) go into the trace while this case runs
    OnlySink jdsink("JDIter");
    struct SinkGuard
    {
        explicit SinkGuard(Spectra::verif::Sink* s) { Spectra::verif::sink() = s; }
        ~SinkGuard() { Spectra::verif::sink() = NULL; }
    } sink_guard(&jdsink);
    Line l("Dav");
    const bool twice2 = twice == 2 || d.i("twice", 0) == 2;
    l.str("st", store).i("n", n).i("qn", q((LD) n)).i("nev", nev).i("rule", twice2 ? (rule == 3 ? 7 : 3) : rule).i("qtol", q((LD) tol)).i("maxit", maxit).i("guess", guess).i("init", init).i("maxs", maxs).i("corr", corr);
    int thr = 0;
    try
    {
        std::unique_ptr<DavidsonSymEigsSolver<OpType> > s;
        if (init > 0)
            s.reset(new DavidsonSymEigsSolver<OpType>(op, nev, init, maxs));
        else
            s.reset(new DavidsonSymEigsSolver<OpType>(op, nev));
        if (corr > 0)
            s->set_correction_size(corr);
        ll ret;
        if (guess == 0)
            ret = (ll) s->compute((SortRule) rule, maxit, tol);
        else
        {
            // user-supplied initial space: orthonormal (guess = 1) or with dependent / non-normalised columns (guess = 2)
            const int cols = std::max(nev, 2) + 1;
            Mat G(n, cols);
            for (int i = 0; i < n; i++)
                for (int j = 0; j < cols; j++)
                    G(i, j) = (double) r.sym();
            if (guess == 1)
            {
                Eigen::HouseholderQR<Mat> qr(G);
                G = qr.householderQ() * Mat::Identity(n, cols);
            }
            else
                G.col(cols - 1) = 2.0 * G.col(0) + G.col(1);
            ret = (ll) s->compute_with_guess(G, (SortRule) rule, maxit, tol);
        }
        if (d.i("twice", 0) == 2 || twice == 2)
        {
            // history: the observed call is a compute_with_guess() with ANOTHER rule and only two iterations, on an object whose first call has
            // (normally) ended Successful: whatever it reports describes this call
            const int other = rule == 3 ? 7 : 3;
            const int cols = std::max(nev, 2) + 1;
            Mat G(n, cols);
            for (int i = 0; i < n; i++)
                for (int j = 0; j < cols; j++)
                    G(i, j) = (double) r.sym();
            Eigen::HouseholderQR<Mat> qr(G);
            G = qr.householderQ() * Mat::Identity(n, cols);
            (void) ret;
            ret = (ll) s->compute_with_guess(G, (SortRule) other, 2, tol);
            rule = other;
        }
        else if (d.i("twice", 0) == 1 || twice == 1)
        {
            // history: a first compute() with another rule on the same object; the observed call is the second one
            const int other = rule == 3 ? 7 : 3;
            (void) ret;
            ret = (ll) s->compute((SortRule) rule == (SortRule) other ? (SortRule) 0 : (SortRule) other, maxit, tol);
            ret = (ll) s->compute((SortRule) rule, maxit, tol);
        }
        Eigen::VectorXd ev = s->eigenvalues();
        Mat X = s->eigenvectors();
        l.i("ret", ret).i("info", (ll) s->info()).i("niter", (ll) s->num_iterations()).i("nval", (ll) ev.size()).i("xrows", (ll) X.rows()).i("xcols", (ll) X.cols());
        l.i("fin", (all_finite(ev) && all_finite(X)) ? 1 : 0);
        const int k = (int) std::min<Eigen::Index>(ev.size(), X.cols());
        std::vector<ll> qres, qnx;
        LD orth = 0;
        MatL XL = X.cast<LD>();
        for (int i = 0; i < k; i++)
        {
            qres.push_back(q((AL * XL.col(i) - (LD) ev[i] * XL.col(i)).norm()));
            qnx.push_back(q(std::fabs(XL.col(i).norm() - 1.0L)));
            for (int j = 0; j < i; j++)
                orth = std::max(orth, std::fabs(XL.col(i).dot(XL.col(j))));
        }
        l.arr("qres", qres).arr("qnx", qnx).i("qorth", k > 1 ? q(orth) : QZERO);
        // ordering by the rule (exact ranks of the library's keys) and selection against the reference spectrum
        std::vector<double> ka, km;
        for (int i = 0; i < k; i++)
        {
            ka.push_back(ev[i]);
            km.push_back(std::fabs(ev[i]));
        }
        l.arr("kA", dense_ranks(ka)).arr("kM", dense_ranks(km));
        Eigen::SelfAdjointEigenSolver<MatL> ref(AL);
        VecL lref = ref.eigenvalues();
        std::vector<ll> ridx, qd, rkA, rkM;
        for (int i = 0; i < k; i++)
        {
            int bi = 0;
            for (int j = 1; j < n; j++)
                if (std::fabs(lref[j] - (LD) ev[i]) < std::fabs(lref[bi] - (LD) ev[i]))
                    bi = j;
            ridx.push_back(bi + 1);
            qd.push_back(q(std::fabs(lref[bi] - (LD) ev[i])));
        }
        // reference keys as dense ranks (ascending algebraic order is the index itself; magnitude ranks computed here)
        std::vector<LD> mags;
        for (int j = 0; j < n; j++)
            mags.push_back(std::fabs(lref[j]));
        l.arr("ridx", ridx).arr("qdist", qd).arr("refM", dense_ranks(mags)).i("qnA", q(AL.norm()));
        // gap of the reference spectrum at the selection boundary is left to the spec through ranks; separation in q units:
        LD mingap = -1;
        for (int j = 0; j + 1 < n; j++)
        {
            LD g = lref[j + 1] - lref[j];
            if (mingap < 0 || g < mingap)
                mingap = g;
        }
        l.i("qgap", q(mingap));
        // separation of the wanted set from the rest in the rule's key: gap at the boundary >= 2% of the key spread (measured here,
        // used by the spec only to decide whether the selection clause applies)
        {
            std::vector<LD> key(n);
            for (int j = 0; j < n; j++)
                key[j] = (rule == 0 || rule == 4) ? std::fabs(lref[j]) : lref[j];
            std::vector<LD> srt(key);
            std::sort(srt.begin(), srt.end());
            LD spread = srt[n - 1] - srt[0];
            LD gapb = (rule == 3 || rule == 0) ? srt[n - nev] - srt[n - nev - 1] : srt[nev] - srt[nev - 1];
            l.i("sep", (spread > 0 && gapb * 50 >= spread) ? 1 : 0);
        }
    }
    catch (const std::invalid_argument&)
    {
        thr = 1;
    }
    catch (const std::exception&)
    {
        thr = 2;
    }
    l.i("thr", thr);
    out().put(l);
}

static void mode_davidson(const Desc& d)
{
    const int count = d.has("case") ? (int) d.i("case") + 1 : (int) d.i("count", 30);
    const int rules[4] = {3, 7, 0, 4};   // LargestAlge, SmallestAlge, LargestMagn, SmallestMagn
    for (int c = 0; c < count; c++)
    {
        if (!case_selected(d, c, "davidson"))
            continue;
        Rng r((uint64_t) d.i("seed", 1) * 271 + 9 + 7919ULL * (uint64_t) c);
        const int n = 20 + r.below(60);
        // diagonally dominant: distinct diagonal plus weak symmetric coupling (the regime the method is designed for)
        MatL A = MatL::Zero(n, n);
        const LD coupling = (c % 5 == 4) ? 0.3L : ((c % 7 == 3) ? 0.1L : 0.01L);
        std::vector<int> perm(n);
        for (int i = 0; i < n; i++)
            perm[i] = i;
        for (int i = n - 1; i > 0; i--)
            std::swap(perm[i], perm[r.below(i + 1)]);
        for (int i = 0; i < n; i++)
        {
            A(i, i) = (LD)(perm[i] + 1) - (c % 3 == 0 ? (LD) n / 2 : 0.0L);
            for (int j = 0; j < i; j++)
                A(i, j) = A(j, i) = coupling * r.sym();
        }
        if (d.i("dec", 0))
        {
            // exactly decoupled coordinate: the row/column of the largest diagonal entry is zero off the diagonal, so the unit vector
            // is an exact eigenvector and the diagonal preconditioner divides by theta - a_ii = 0
            int pmax = 0;
            for (int i = 1; i < n; i++)
                if (A(i, i) > A(pmax, pmax))
                    pmax = i;
            for (int j = 0; j < n; j++)
                if (j != pmax)
                    A(pmax, j) = A(j, pmax) = 0;
        }
        int nev = 1 + r.below(3);
        int rule = d.i("dec", 0) ? 3 : rules[c % 4];
        // c % 10 == 9: two wanted eigenvalues of nearly equal magnitude and opposite sign that converge at very different speeds - a nearly
        // isolated diagonal entry -(top - 0.04) (converges at once) and the top eigenvalue of a long non-diagonally-dominant chain
        // (approached slowly) - under LargestMagn: the order of the Ritz pairs changes while some are already converged
        const bool opp = (c % 10 == 9) && !d.i("dec", 0);
        if (opp)
        {
            A.setZero();
            const int len = 15 + r.below(8);
            const LD off = 1.0L + 0.1L * r.uni();
            const LD top = 8.0L + 2.0L * off * std::cos(3.14159265358979323846L / (LD)(len + 1));
            A(0, 0) = -(top - 0.04L);
            for (int i = 1; i <= len && i < n; i++)
            {
                A(i, i) = 8.0L;
                if (i + 1 <= len && i + 1 < n)
                    A(i, i + 1) = A(i + 1, i) = off;
            }
            for (int i = len + 1; i < n; i++)
                A(i, i) = -5.0L + 10.0L * (LD)(i - len) / (LD)(n - len) + 0.01L * r.sym();
            for (int i = 0; i < n; i++)
                for (int j = 0; j < i; j++)
                    if (A(i, j) == 0)
                        A(i, j) = A(j, i) = 0.001L * r.sym();
            nev = 2;
            rule = 0;
        }
        // SmallestMagn on a spectrum that straddles zero asks for INTERIOR eigenvalues, which the diagonal-preconditioned Davidson
        // iteration does not reliably deliver on the unchanged tree (recorded finding on a fixed case); the random profile keeps
        // SmallestMagn for one-signed spectra
        if (rule == 4 && c % 3 == 0)
            rule = 7;
        double tol = (c % 2) ? 1e-6 : 1e-9;
        const int guess = (c % 6 == 5) ? 1 : 0;
        if (c % 8 == 4 && !d.i("dec", 0) && !opp)
        {
            // a tolerance tighter than the default of compute_with_guess(), on a matrix of norm about one so that it is attainable
            A /= (LD) n;
            tol = (c % 16 == 4) ? 1e-12 : 1e-13;
        }
        int init = 0, maxs = 0, corr = 0;
        if (c % 4 == 2)
        {
            init = nev + 1 + r.below(3);
            corr = nev;
            maxs = init + corr * (1 + r.below(3));   // small maximal space: restarts happen
        }
        const int twice = (c % 16 == 11) ? 2 : ((c % 8 == 3) ? 1 : 0);
        if (c % 8 == 6 && nev >= 2)
        {
            // correction size below nev (legal: initial + correction <= n): every one of the nev pairs must still be converged
            init = 2 * nev;
            maxs = 10 * nev;
            corr = nev - 1;
        }
        // wrappers: full storage with the default options, and one-triangle storage with the Lower / Upper option (dense, sparse col-/row-major)
        switch (c % 8)
        {
            case 0: case 4:
                davidson_case<DenseSymMatProd<double>, Eigen::MatrixXd>(d, A, "dense", nev, rule, tol, 300, guess, r, init, maxs, corr, twice);
                break;
            case 1: case 5:
                davidson_case<SparseSymMatProd<double>, Eigen::SparseMatrix<double> >(d, A, "sparse", nev, rule, tol, 300, guess, r, init, maxs, corr, twice);
                break;
            case 2:
                davidson_case<DenseSymMatProd<double, Eigen::Upper>, Eigen::MatrixXd>(d, A, "denseU", nev, rule, tol, 300, guess, r, init, maxs, corr, twice, 2);
                break;
            case 3:
                davidson_case<SparseSymMatProd<double, Eigen::Upper>, Eigen::SparseMatrix<double> >(d, A, "sparseU", nev, rule, tol, 300, guess, r, init, maxs, corr, twice, 2);
                break;
            case 6:
                davidson_case<SparseSymMatProd<double, Eigen::Lower, Eigen::RowMajor>, Eigen::SparseMatrix<double, Eigen::RowMajor> >(d, A, "sparseLr", nev, rule, tol, 300, guess, r, init, maxs, corr, twice, 1);
                break;
            default:
                davidson_case<SparseSymMatProd<double, Eigen::Upper, Eigen::RowMajor>, Eigen::SparseMatrix<double, Eigen::RowMajor> >(d, A, "sparseUr", nev, rule, tol, 300, guess, r, init, maxs, corr, twice, 2);
                break;
        }
    }
}

template <typename T>
void dispatch(const Desc& d)
{
    const std::string mode = d.s("mode");
    if (mode == "svd")
    {
        mode_svd(d);
        if (d.i("sweep", 1) && (!d.has("case") || (d.i("case") >= 1000 && d.i("case") < 2000)))
            svd_sweep(d);
        if (d.i("sweep", 1) && (!d.has("case") || d.i("case") >= 2000))
            svd_sweep_tie(d);
    }
    else if (mode == "svdseq")
        mode_svdseq(d);
    else if (mode == "svdmult")
        mode_svdmult(d);
    else if (mode == "lobpcg")
        mode_lobpcg(d);
    else if (mode == "davidson")
        mode_davidson(d);
    else
        exit(3);
    Line e("EndAux");
    out().put(e);
}
#define VH_ONLY 2
#include "drv_main.h"
