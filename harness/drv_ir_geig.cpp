// Driver: symmetric generalized solvers.
//   gchol   SymGEigsSolver<.., Cholesky>          A x = lambda B x, iterate on inv(L) A inv(L')
//   greginv SymGEigsSolver<.., RegularInverse>    iterate on inv(B) A with the B inner product
//   gsi     SymGEigsShiftSolver<.., ShiftInvert>  inv(A - sigma B) B
//   gbuck   SymGEigsShiftSolver<.., Buckling>     K x = lambda KG x, inv(K - sigma KG) K, K inner product
//   gcay    SymGEigsShiftSolver<.., Cayley>       inv(A - sigma B)(A + sigma B)
// store = dd | ss | sd | ds (A dense/sparse, B dense/sparse), uplo = ll | uu | ul | lu (triangle of A, of B).
// The triangle that a wrapper is told NOT to read is filled with poison values.
#include "ir_run.h"
#include <Spectra/SymGEigsSolver.h>
#include <Spectra/SymGEigsShiftSolver.h>
#include <Spectra/MatOp/DenseSymMatProd.h>
#include <Spectra/MatOp/SparseSymMatProd.h>
#include <Spectra/MatOp/DenseCholesky.h>
#include <Spectra/MatOp/SparseCholesky.h>
#include <Spectra/MatOp/SparseRegularInverse.h>
#include <Spectra/MatOp/SymShiftInvert.h>

using namespace vh;
using namespace Spectra;

static ll g_id = 0;

// B-side adaptor: forwards every member a B operator may have; counts / faults on its own statistics
template <typename Inner>
struct CountBOp
{
    typedef typename Inner::Scalar Scalar;
    Inner& in;
    OpStats* st;
    CountBOp(Inner& i, OpStats* s) : in(i), st(s) {}
    Eigen::Index rows() const { return in.rows(); }
    Eigen::Index cols() const { return in.cols(); }
    void tick() const
    {
        st->total++;
        if (st->fault_at && st->total == st->fault_at)
        {
            st->thrown++;
            st->thrown_since_arm++;
            st->fault_at = 0;
            throw Fault(st->fault_tag);
        }
    }
    void perform_op(const Scalar* x, Scalar* y) const
    {
        tick();
        in.perform_op(x, y);
        st->count++;
    }
    void solve(const Scalar* x, Scalar* y) const
    {
        tick();
        in.solve(x, y);
        st->count++;
    }
    void lower_triangular_solve(const Scalar* x, Scalar* y) const
    {
        tick();
        in.lower_triangular_solve(x, y);
        st->count++;
    }
    void upper_triangular_solve(const Scalar* x, Scalar* y) const
    {
        tick();
        in.upper_triangular_solve(x, y);
        st->count++;
    }
    CompInfo info() const { return in.info(); }
};

template <typename T>
struct Pencil
{
    typedef Eigen::Matrix<T, Eigen::Dynamic, Eigen::Dynamic> Mat;
    Mat A, B;          // full symmetric matrices (type T)
    Mat Ap, Bp;        // poisoned copies handed to the wrappers: only the triangle named by uplo is valid
    MatL AL, BL;       // long double images of the cast matrices
    VecL D;            // prescribed generalized eigenvalues (fam=pencil)
    int uploA, uploB;  // Eigen::Lower / Eigen::Upper
};

template <typename T>
static Pencil<T> make_pencil(const Desc& d, bool b_general)
{
    const int n = (int) d.i("n");
    Rng r((uint64_t) d.i("seed", 1) * 7919ULL + 41ULL);
    const std::string fam = d.s("fam", "rand");
    const int lgc = (int) d.i("lgc", 4);
    MatL A, B;
    VecL pD;
    if (fam == "pencil")
    {
        // A = L D L', B = L L' : generalized eigenvalues = D (prescribed)
        MatL L = MatL::Zero(n, n);
        for (int i = 0; i < n; i++)
        {
            for (int j = 0; j < i; j++)
                L(i, j) = 0.3L * r.sym();
            L(i, i) = 1.0L + 0.5L * r.uni();
        }
        VecL D = make_spectrum(d.s("spec", "lin"), n, r, d);
        if (b_general)
        {
            // buckling: K = L L' (positive definite), KG = L inv(D) L'  =>  K x = lambda KG x has lambda = D (nonzero)
            for (int i = 0; i < n; i++)
                if (D[i] == 0)
                    D[i] = 15;
            VecL Di = D.cwiseInverse();
            A = L * L.transpose();
            B = L * Di.asDiagonal() * L.transpose();
        }
        else
        {
            A = L * D.asDiagonal() * L.transpose();
            B = L * L.transpose();
        }
        pD = D;
    }
    else if (fam == "nullA")
    {
        // A = blockdiag(0, A2): A e1 = 0, so a start vector e1 is mapped to zero by every operator built from A
        // (the start-vector fallback of Arnoldi::init); B is SPD and not a multiple of I on e1
        A = MatL::Zero(n, n);
        for (int i = 1; i < n; i++)
            for (int j = 1; j <= i; j++)
                A(i, j) = A(j, i) = r.sym();
        B = MatL::Zero(n, n);
        for (int i = 0; i < n; i++)
        {
            B(i, i) = 2.0L + 0.5L * r.uni();
            if (i + 1 < n)
                B(i, i + 1) = B(i + 1, i) = 0.6L;
        }
        // lgcB / bsc: an ill-conditioned B (condition number 2^lgcB) scaled by 10^bsc instead: one Gram-Schmidt pass in the B-inner product
        // is then not enough for the fresh direction after the breakdown (the correction loop of expand_basis runs), and B-norms are
        // far from 2-norms
        if (d.has("lgcB"))
            B = gen_spd(n, r, (int) d.i("lgcB")) * std::pow(10.0L, (LD) d.i("bsc", 0));
    }
    else
    {
        MatL M(n, n);
        for (int i = 0; i < n; i++)
            for (int j = 0; j < n; j++)
                M(i, j) = r.sym();
        A = (M + M.transpose()) * 0.5L;
        B = gen_spd(n, r, lgc);
    }
    if (b_general && fam != "pencil")
    {
        // buckling: "A" is K (positive definite), "B" is KG (symmetric, indefinite allowed)
        MatL K = gen_spd(n, r, lgc);
        MatL M(n, n);
        for (int i = 0; i < n; i++)
            for (int j = 0; j < n; j++)
                M(i, j) = r.sym();
        B = (M + M.transpose()) * 0.5L;
        A = K;
    }
    A = ((A + A.transpose()) * 0.5L).eval();
    B = ((B + B.transpose()) * 0.5L).eval();
    const LD scale = std::pow(2.0L, (LD) d.i("lgs", 0));
    A *= scale;
    Pencil<T> p;
    p.A = A.template cast<T>();
    p.B = B.template cast<T>();
    // exact symmetry after the cast
    p.A = ((p.A + p.A.transpose()) * T(0.5)).eval();
    p.B = ((p.B + p.B.transpose()) * T(0.5)).eval();
    p.D = pD * scale;
    p.AL = p.A.template cast<LD>();
    p.BL = p.B.template cast<LD>();
    const std::string uplo = d.s("uplo", "ll");
    p.uploA = uplo[0] == 'u' ? Eigen::Upper : Eigen::Lower;
    p.uploB = uplo[1] == 'u' ? Eigen::Upper : Eigen::Lower;
    p.Ap = p.A;
    p.Bp = p.B;
    if (d.i("poison", 1))
        for (int i = 0; i < n; i++)
            for (int j = 0; j < n; j++)
            {
                if (i == j)
                    continue;
                bool lower = i > j;
                if ((p.uploA == Eigen::Lower) != lower)
                    p.Ap(i, j) = T(7.5 + 0.25 * ((i + 2 * j) % 5));
                if ((p.uploB == Eigen::Lower) != lower)
                    p.Bp(i, j) = T(-3.25 - 0.5 * ((2 * i + j) % 3));
            }
    return p;
}

template <typename T, typename Solver, typename Base, typename MakeSolver>
static void run_solver(const Desc& d, Ctx& cx, OpStats& st, OpStats& stB, MakeSolver mk, std::function<ll()> probe, std::function<void()> reshift = std::function<void()>())
{
    TraceSink sink;
    reset_line(d, cx, Ty<T>::code(), 0, ++g_id);
    Runner<Solver, Base, T> r(d, cx, st, sink);
    r.lanczos = true;
    r.make = mk;
    r.op_probe = probe;
    r.op_reshift = reshift;
    if (d.s("ftarget", "a") == "b")
        r.fst = &stB;
    SymProblem sp;
    sp.blk = (int) d.i("blk", 0);
    r.run(&sp);
}

template <typename Op>
static ll probe_op(Op& op, int n)
{
    typedef typename Op::Scalar S;
    Eigen::Matrix<S, Eigen::Dynamic, 1> w(n), y(n);
    for (int i = 0; i < n; i++)
        w[i] = S(1.0 + 0.37 * ((i * 7) % 11));
    op.perform_op(w.data(), y.data());
    Digest g;
    g.mat(y);
    return g.word30();
}

// ---- Cholesky / regular inverse --------------------------------------------------------------
template <typename T, int UploA, int UploB>
static void run_chol(const Desc& d, Pencil<T>& p, bool sparse)
{
    const int n = (int) d.i("n");
    const Eigen::Index nev = (Eigen::Index) d.i("nev"), ncv = (Eigen::Index) d.i("ncv");
    Ctx cx;
    cx.mode = "chol";
    cx.PA = to_c(p.AL);
    cx.PB = to_c(p.BL);
    Eigen::LLT<MatL> llt(p.BL);
    MatL L = llt.matrixL();
    MatL Li = L.inverse();
    cx.OP = to_c(MatL(Li * p.AL * Li.transpose()));
    cx.XIP = cx.PB;
    cx.xip_ident = false;
    cx.condfac = p.BL.norm() * p.BL.inverse().norm();
    cx.finish();
    if (d.i("c04") && p.D.size())
        set_prescribed(cx, p.D);
    OpStats st, stB;
    if (sparse)
    {
        typedef SparseSymMatProd<T, UploA> InA;
        typedef SparseCholesky<T, UploB> InB;
        typedef CountOp<InA> Op;
        typedef CountBOp<InB> BOp;
        typedef SymGEigsSolver<Op, BOp, GEigsMode::Cholesky> Solver;
        typedef HermEigsBase<SymGEigsCholeskyOp<Op, BOp>, IdentityBOp> Base;
        Eigen::SparseMatrix<T> As = p.Ap.sparseView(), Bs = p.Bp.sparseView();
        InA ina(As);
        InB inb(Bs);
        Op op(ina, &st);
        BOp bop(inb, &stB);
        run_solver<T, Solver, Base>(d, cx, st, stB, [&]() { return new Solver(op, bop, nev, ncv); }, [&]() { return probe_op(op, n); });
    }
    else
    {
        typedef DenseSymMatProd<T, UploA> InA;
        typedef DenseCholesky<T, UploB> InB;
        typedef CountOp<InA> Op;
        typedef CountBOp<InB> BOp;
        typedef SymGEigsSolver<Op, BOp, GEigsMode::Cholesky> Solver;
        typedef HermEigsBase<SymGEigsCholeskyOp<Op, BOp>, IdentityBOp> Base;
        InA ina(p.Ap);
        InB inb(p.Bp);
        Op op(ina, &st);
        BOp bop(inb, &stB);
        run_solver<T, Solver, Base>(d, cx, st, stB, [&]() { return new Solver(op, bop, nev, ncv); }, [&]() { return probe_op(op, n); });
    }
}

template <typename T, int UploA, int UploB>
static void run_reginv(const Desc& d, Pencil<T>& p)
{
    const int n = (int) d.i("n");
    const Eigen::Index nev = (Eigen::Index) d.i("nev"), ncv = (Eigen::Index) d.i("ncv");
    Ctx cx;
    cx.mode = "reginv";
    cx.PA = to_c(p.AL);
    cx.PB = to_c(p.BL);
    MatL Bi = p.BL.inverse();
    cx.OP = to_c(MatL(Bi * p.AL));
    cx.IP = cx.PB;
    cx.ip_ident = false;
    cx.XIP = cx.PB;
    cx.xip_ident = false;
    cx.condfac = p.BL.norm() * Bi.norm();
    cx.finish();
    if (d.i("c04") && p.D.size())
        set_prescribed(cx, p.D);
    OpStats st, stB;
    typedef SparseSymMatProd<T, UploA> InA;
    typedef SparseRegularInverse<T, UploB> InB;
    typedef CountOp<InA> Op;
    typedef CountBOp<InB> BOp;
    typedef SymGEigsSolver<Op, BOp, GEigsMode::RegularInverse> Solver;
    typedef HermEigsBase<SymGEigsRegInvOp<Op, BOp>, BOp> Base;
    Eigen::SparseMatrix<T> As = p.Ap.sparseView(), Bs = p.Bp.sparseView();
    InA ina(As);
    InB inb(Bs);
    Op op(ina, &st);
    BOp bop(inb, &stB);
    run_solver<T, Solver, Base>(d, cx, st, stB, [&]() { return new Solver(op, bop, nev, ncv); }, [&]() { return probe_op(bop, n); });
}

// ---- shift-and-invert family -----------------------------------------------------------------
template <typename T, GEigsMode Mode, typename InA, typename InB, typename MA, typename MB, typename MBB>
static void run_shift_with(const Desc& d, Ctx& cx, const MA& Aarg, const MB& Barg, const MBB& BBarg)
{
    const int n = (int) d.i("n");
    const Eigen::Index nev = (Eigen::Index) d.i("nev"), ncv = (Eigen::Index) d.i("ncv");
    const T sigma = (T) d.f("sigma", 0.5L);
    OpStats st, stB;
    typedef CountOp<InA> Op;
    typedef CountBOp<InB> BOp;
    typedef SymGEigsShiftSolver<Op, BOp, Mode> Solver;
    typedef typename std::conditional<Mode == GEigsMode::ShiftInvert, SymGEigsShiftInvertOp<Op, BOp>,
                                      typename std::conditional<Mode == GEigsMode::Buckling, SymGEigsBucklingOp<Op, BOp>, SymGEigsCayleyOp<Op, BOp> >::type>::type ModeOp;
    typedef HermEigsBase<ModeOp, BOp> Base;
    InA ina(Aarg, Barg);
    // presig: the operator object has been used before with ANOTHER shift (an earlier solver on the same object)
    if (d.has("presig"))
        ina.set_shift((T) d.f("presig"));
    InB inb(BBarg);
    Op op(ina, &st);
    BOp bop(inb, &stB);
    // the shift is handed over in a variable of the caller that is overwritten right after construction: the solver must have taken a copy
    T sigvar = sigma;
    run_solver<T, Solver, Base>(d, cx, st, stB, [&]() { sigvar = sigma; Solver* s = new Solver(op, bop, nev, ncv, sigvar); sigvar = sigma + T(977); return s; }, [&]() { return probe_op(op, n); },
                                [&]() { try { ina.set_shift((T) d.f("resig", 0.21L)); } catch (const std::exception&) {} ina.set_shift(sigma); });
}

template <typename T, GEigsMode Mode, int UploA, int UploB>
static void run_shift(const Desc& d, Pencil<T>& p, const std::string& store)
{
    const int n = (int) d.i("n");
    const LD sigma = (LD) (T) d.f("sigma", 0.5L);
    Ctx cx;
    cx.PA = to_c(p.AL);
    cx.PB = to_c(p.BL);
    MatL S = p.AL - sigma * p.BL;
    MatL Si = S.inverse();
    cx.sigr = sigma;
    cx.normS = S.norm();
    cx.condfac = S.norm() * Si.norm();
    {
        // conditioning of the inner-product matrix enters the orthonormality of the basis as well
        const MatL& IPm = (Mode == GEigsMode::Buckling) ? p.AL : p.BL;
        cx.condfac = std::max(cx.condfac, IPm.norm() * IPm.inverse().norm());
    }
    if (Mode == GEigsMode::ShiftInvert)
    {
        cx.mode = "gsi";
        cx.OP = to_c(MatL(Si * p.BL));
        cx.IP = cx.PB;
    }
    else if (Mode == GEigsMode::Buckling)
    {
        cx.mode = "buck";
        cx.OP = to_c(MatL(Si * p.AL));
        cx.IP = cx.PA;   // K inner product
    }
    else
    {
        cx.mode = "cay";
        cx.OP = to_c(MatL(Si * (p.AL + sigma * p.BL)));
        cx.IP = cx.PB;
    }
    cx.ip_ident = false;
    cx.XIP = cx.IP;
    cx.xip_ident = false;
    cx.finish();
    if (d.i("c04") && p.D.size())
        set_prescribed(cx, p.D);
    // the matrix of the inner product: B (ShiftInvert, Cayley) or K = "A" (Buckling); it is passed with the triangle option of that matrix
    const bool buck = Mode == GEigsMode::Buckling;
    Eigen::SparseMatrix<T> As = p.Ap.sparseView(), Bs = p.Bp.sparseView();
    if (store == "dd")
    {
        typedef SymShiftInvert<T, Eigen::Dense, Eigen::Dense, UploA, UploB> InA;
        if (buck)
            run_shift_with<T, Mode, InA, DenseSymMatProd<T, UploA> >(d, cx, p.Ap, p.Bp, p.Ap);
        else
            run_shift_with<T, Mode, InA, DenseSymMatProd<T, UploB> >(d, cx, p.Ap, p.Bp, p.Bp);
    }
    else if (store == "ss")
    {
        typedef SymShiftInvert<T, Eigen::Sparse, Eigen::Sparse, UploA, UploB> InA;
        if (buck)
            run_shift_with<T, Mode, InA, SparseSymMatProd<T, UploA> >(d, cx, As, Bs, As);
        else
            run_shift_with<T, Mode, InA, SparseSymMatProd<T, UploB> >(d, cx, As, Bs, Bs);
    }
    else if (store == "sd")
    {
        typedef SymShiftInvert<T, Eigen::Sparse, Eigen::Dense, UploA, UploB> InA;
        if (buck)
            run_shift_with<T, Mode, InA, SparseSymMatProd<T, UploA> >(d, cx, As, p.Bp, As);
        else
            run_shift_with<T, Mode, InA, DenseSymMatProd<T, UploB> >(d, cx, As, p.Bp, p.Bp);
    }
    else
    {
        typedef SymShiftInvert<T, Eigen::Dense, Eigen::Sparse, UploA, UploB> InA;
        if (buck)
            run_shift_with<T, Mode, InA, DenseSymMatProd<T, UploA> >(d, cx, p.Ap, Bs, p.Ap);
        else
            run_shift_with<T, Mode, InA, SparseSymMatProd<T, UploB> >(d, cx, p.Ap, Bs, Bs);
    }
}

template <typename T, int UploA, int UploB>
static void by_class(const Desc& d)
{
    const std::string cls = d.s("cls"), store = d.s("store", "dd");
    Pencil<T> p = make_pencil<T>(d, cls == "gbuck");
    if (cls == "gchol")
        run_chol<T, UploA, UploB>(d, p, store == "ss");
    else if (cls == "greginv")
        run_reginv<T, UploA, UploB>(d, p);
    else if (cls == "gsi")
        run_shift<T, GEigsMode::ShiftInvert, UploA, UploB>(d, p, store);
    else if (cls == "gbuck")
        run_shift<T, GEigsMode::Buckling, UploA, UploB>(d, p, store);
    else if (cls == "gcay")
        run_shift<T, GEigsMode::Cayley, UploA, UploB>(d, p, store);
    else
    {
        fprintf(stderr, "drv_ir_geig: unknown cls %s\n", cls.c_str());
        exit(3);
    }
}

template <typename T>
void dispatch(const Desc& d)
{
    const std::string uplo = d.s("uplo", "ll");
    if (uplo == "ll")
        by_class<T, Eigen::Lower, Eigen::Lower>(d);
    else if (uplo == "uu")
        by_class<T, Eigen::Upper, Eigen::Upper>(d);
    else if (uplo == "ul")
        by_class<T, Eigen::Upper, Eigen::Lower>(d);
    else
        by_class<T, Eigen::Lower, Eigen::Upper>(d);
}
#include "drv_main.h"
