// Common harness layer: trace writer, log2 quantiser, digests, deterministic RNG,
// event sink for the guarded hooks in /repo, operator adaptors.
//
// The harness MEASURES (extended precision norms, digests, counters) and LOGS integers;
// it never decides whether a property holds.  All judging is done by the TLA+ trace
// specifications under /verif/spec.
#ifndef VERIF_VH_H
#define VERIF_VH_H

#ifndef SPECTRA_VERIF
#error "compile the harness with -DSPECTRA_VERIF"
#endif

#include <Eigen/Core>
#include <Eigen/Dense>
#include <Eigen/Sparse>
#include <cmath>
#include <complex>
#include <cstdint>
#include <cstdio>
#include <cstdlib>
#include <cstring>
#include <functional>
#include <map>
#include <sstream>
#include <stdexcept>
#include <string>
#include <typeinfo>
#include <vector>
#include <unistd.h>
#include <Spectra/Util/VerifHook.h>

namespace vh {

typedef long double LD;
typedef std::complex<long double> CLD;
typedef Eigen::Matrix<LD, Eigen::Dynamic, Eigen::Dynamic> MatL;
typedef Eigen::Matrix<LD, Eigen::Dynamic, 1> VecL;
typedef Eigen::Matrix<CLD, Eigen::Dynamic, Eigen::Dynamic> CMatL;
typedef Eigen::Matrix<CLD, Eigen::Dynamic, 1> CVecL;
typedef long long ll;

// heap observations (filled by the driver's main, see alloc_guard.h)
static long long g_heap_live = 0;
static long long g_heap_ov0 = 0;
static volatile long long* g_heap_overruns_ptr = NULL;

// ---------------------------------------------------------------- quantiser
// q(x) = round(16*log2(x)), clamped to +-32000; QZERO for exact zero, QNAN for NaN/Inf.
static const ll QZERO = -32768;
static const ll QNAN = 32767;
inline ll q(LD x)
{
    if (std::isnan(x) || std::isinf(x))
        return QNAN;
    if (x < 0)
        x = -x;
    if (x == 0)
        return QZERO;
    LD v = 16.0L * std::log2(x);
    if (v > 32000.0L)
        return 32000;
    if (v < -32000.0L)
        return -32000;
    return (ll) std::llround(v);
}

// ---------------------------------------------------------------- RNG (SplitMix64)
struct Rng
{
    uint64_t s;
    explicit Rng(uint64_t seed) : s(seed * 0x9E3779B97F4A7C15ULL + 0x1234567ULL) {}
    uint64_t next()
    {
        uint64_t z = (s += 0x9E3779B97F4A7C15ULL);
        z = (z ^ (z >> 30)) * 0xBF58476D1CE4E5B9ULL;
        z = (z ^ (z >> 27)) * 0x94D049BB133111EBULL;
        return z ^ (z >> 31);
    }
    // uniform in [0,1)
    LD uni() { return (LD)(next() >> 11) / (LD) 9007199254740992.0L; }
    // uniform in [-1,1)
    LD sym() { return 2.0L * uni() - 1.0L; }
    int below(int n) { return (int) (next() % (uint64_t) n); }
    LD gauss()
    {
        LD u1 = uni(), u2 = uni();
        if (u1 < 1e-18L)
            u1 = 1e-18L;
        return std::sqrt(-2.0L * std::log(u1)) * std::cos(6.283185307179586476925L * u2);
    }
};

// ---------------------------------------------------------------- digest (FNV-1a 64 + mix)
struct Digest
{
    uint64_t h;
    Digest() : h(1469598103934665603ULL) {}
    void bytes(const void* p, size_t n)
    {
        const unsigned char* c = (const unsigned char*) p;
        for (size_t i = 0; i < n; i++)
        {
            h ^= c[i];
            h *= 1099511628211ULL;
        }
    }
    void i64(ll v) { bytes(&v, sizeof(v)); }
    // long double has padding bytes: hash only the 10 value bytes
    void scalar(float v) { bytes(&v, sizeof(v)); }
    void scalar(double v) { bytes(&v, sizeof(v)); }
    void scalar(long double v) { bytes(&v, 10); }
    template <typename T>
    void scalar(const std::complex<T>& v)
    {
        scalar(v.real());
        scalar(v.imag());
    }
    template <typename M>
    void mat(const M& m)
    {
        i64(m.rows());
        i64(m.cols());
        for (Eigen::Index j = 0; j < m.cols(); j++)
            for (Eigen::Index i = 0; i < m.rows(); i++)
                scalar(m(i, j));
    }
    uint64_t fin() const
    {
        uint64_t z = h;
        z = (z ^ (z >> 30)) * 0xBF58476D1CE4E5B9ULL;
        z = (z ^ (z >> 27)) * 0x94D049BB133111EBULL;
        return z ^ (z >> 31);
    }
    // three 21-bit words
    void words(ll out[3]) const
    {
        uint64_t z = fin();
        out[0] = (ll)(z & 0x1FFFFF);
        out[1] = (ll)((z >> 21) & 0x1FFFFF);
        out[2] = (ll)((z >> 42) & 0x1FFFFF);
    }
    ll word30() const { return (ll)(fin() & 0x3FFFFFFF); }
};

// ---------------------------------------------------------------- trace writer
// One JSON object per line; integer / string / integer-array / nested integer-array fields only.
struct Line
{
    std::string s;
    bool first;
    explicit Line(const char* e) : first(true)
    {
        s.reserve(256);
        s += "{";
        str("e", e);
    }
    void key(const char* k)
    {
        if (!first)
            s += ",";
        first = false;
        s += "\"";
        s += k;
        s += "\":";
    }
    // TLC integers are 32 bit.  A value outside that range (only garbage produced by the code under test can be: every
    // legitimate quantity of the harness is far smaller) is written as the sentinel 2147483646 and announced by an
    // "OutOfRange" row right after the current one, which every trace specification reports as a hit.
    static ll& oor_pending()
    {
        static ll n = 0;
        return n;
    }
    static ll chk(ll v)
    {
        if (v >= 2147483647LL || v <= -2147483647LL)
        {
            oor_pending()++;
            return 2147483646LL;
        }
        return v;
    }
    Line& i(const char* k, ll v)
    {
        v = chk(v);
        key(k);
        s += std::to_string(v);
        return *this;
    }
    Line& str(const char* k, const std::string& v)
    {
        key(k);
        s += "\"";
        s += v;
        s += "\"";
        return *this;
    }
    Line& arr(const char* k, const std::vector<ll>& v)
    {
        key(k);
        app(v);
        return *this;
    }
    Line& arr(const char* k, const ll* v, int n)
    {
        key(k);
        s += "[";
        for (int j = 0; j < n; j++)
        {
            if (j)
                s += ",";
            s += std::to_string(chk(v[j]));
        }
        s += "]";
        return *this;
    }
    Line& arr2(const char* k, const std::vector<std::vector<ll> >& v)
    {
        key(k);
        s += "[";
        for (size_t j = 0; j < v.size(); j++)
        {
            if (j)
                s += ",";
            app(v[j]);
        }
        s += "]";
        return *this;
    }
    void app(const std::vector<ll>& v)
    {
        s += "[";
        for (size_t j = 0; j < v.size(); j++)
        {
            if (j)
                s += ",";
            s += std::to_string(chk(v[j]));
        }
        s += "]";
    }
};

struct Out
{
    FILE* f;
    long lines;
    Out() : f(stdout), lines(0) {}
    void put(Line& l)
    {
        l.s += "}\n";
        fwrite(l.s.data(), 1, l.s.size(), f);
        lines++;
        if (Line::oor_pending() > 0)
        {
            std::string o = "{\"e\":\"OutOfRange\",\"count\":" + std::to_string(Line::oor_pending()) + "}\n";
            Line::oor_pending() = 0;
            fwrite(o.data(), 1, o.size(), f);
            lines++;
        }
    }
    void flush() { fflush(f); }
};
inline Out& out()
{
    static Out o;
    return o;
}

// Abnormal termination: log an Abort line and flush, so that traces are never silently truncated.
inline void on_terminate()
{
    Line l("Abort");
    l.str("why", "terminate");
    out().put(l);
    out().flush();
    _exit(0);
}
inline void on_signal(int sig)
{
    // best effort; stdio in a signal handler is not strictly safe but the process ends here
    char buf[96];
    int n = snprintf(buf, sizeof(buf), "{\"e\":\"Abort\",\"why\":\"signal\",\"sig\":%d}\n", sig);
    static volatile int entered = 0;
    // a second signal while the first one is being handled (stdio on a corrupted heap): write the line unbuffered and leave
    if (!entered)
    {
        entered = 1;
        fflush(out().f);
    }
    if (write(fileno(out().f), buf, n) < 0) {}
    _exit(0);
}

// ---------------------------------------------------------------- descriptor "k=v;k=v"
struct Desc
{
    std::map<std::string, std::string> kv;
    std::string raw;
    static Desc parse(const std::string& s)
    {
        Desc d;
        d.raw = s;
        size_t p = 0;
        while (p < s.size())
        {
            size_t e = s.find(';', p);
            if (e == std::string::npos)
                e = s.size();
            std::string item = s.substr(p, e - p);
            size_t eq = item.find('=');
            if (eq != std::string::npos)
                d.kv[item.substr(0, eq)] = item.substr(eq + 1);
            p = e + 1;
        }
        return d;
    }
    bool has(const std::string& k) const { return kv.count(k) > 0; }
    std::string s(const std::string& k, const std::string& def = "") const
    {
        std::map<std::string, std::string>::const_iterator it = kv.find(k);
        return it == kv.end() ? def : it->second;
    }
    ll i(const std::string& k, ll def = 0) const
    {
        std::map<std::string, std::string>::const_iterator it = kv.find(k);
        return it == kv.end() ? def : atoll(it->second.c_str());
    }
    LD f(const std::string& k, LD def = 0) const
    {
        std::map<std::string, std::string>::const_iterator it = kv.find(k);
        return it == kv.end() ? def : strtold(it->second.c_str(), NULL);
    }
    std::vector<std::string> list(const std::string& k, char sep = ',') const
    {
        std::vector<std::string> r;
        std::string v = s(k);
        size_t p = 0;
        while (p < v.size())
        {
            size_t e = v.find(sep, p);
            if (e == std::string::npos)
                e = v.size();
            r.push_back(v.substr(p, e - p));
            p = e + 1;
        }
        return r;
    }
};

// ---------------------------------------------------------------- scalar type codes / eps on the q scale
template <typename T> struct Ty;
template <> struct Ty<float> { static int code() { return 1; } static const char* name() { return "f"; } };
template <> struct Ty<double> { static int code() { return 2; } static const char* name() { return "d"; } };
template <> struct Ty<long double> { static int code() { return 3; } static const char* name() { return "l"; } };
template <typename T> struct Ty<std::complex<T> > { static int code() { return Ty<T>::code() + 10; } };

template <typename T>
inline LD eps_of()
{
    return (LD) std::numeric_limits<typename Eigen::NumTraits<T>::Real>::epsilon();
}

// ---------------------------------------------------------------- hook sink
// Writes every hook event as {"e":name,"v":[...],"t":trueOps} and then calls an optional
// measurement callback (which may append measurement lines).
struct OpStats
{
    ll count;      // applications of the user's operator since the last reset (true count)
    ll total;      // applications since construction of the stats object
    ll bad;        // applications with invalid / aliased pointers or a non-finite input vector
    ll fault_at;   // throw at this application index (counted on `total`), 0 = never
    ll fault_tag;  // payload of the thrown exception
    ll probe;      // applications performed while "probe mode" (complex-shift post-processing)
    bool in_probe;
    ll setshift;   // number of set_shift calls
    ll thrown;     // faults thrown so far
    ll thrown_since_arm;
    int fault_kind; // 0: throw vh::Fault (derived from std::exception); 1: throw vh::RawFault (NOT derived from std::exception);
                    // 2: no exception - the operator RETURNS a vector whose first entry is NaN (a library wrapper further down may throw)
    OpStats() : count(0), total(0), bad(0), fault_at(0), fault_tag(0), probe(0), in_probe(false), setshift(0), thrown(0), thrown_since_arm(0), fault_kind(0) {}
};

struct Fault : public std::exception
{
    ll tag;
    explicit Fault(ll t) : tag(t) {}
    const char* what() const throw() { return "vh::Fault"; }
};

// a user exception type outside the std::exception hierarchy (C14: the exception propagates unchanged whatever its type)
struct RawFault
{
    ll tag;
    explicit RawFault(ll t) : tag(t) {}
};

struct TraceSink : public Spectra::verif::Sink
{
    OpStats* stats;
    std::function<void(const char*, const void*, const long long*, int)> cb;
    bool enabled;
    ll nevents;
    TraceSink() : stats(NULL), enabled(true), nevents(0) {}
    void event(const char* name, const void* obj, const long long* vals, int n)
    {
        if (!enabled)
            return;
        nevents++;
        if (!strcmp(name, "ProbeShift") && stats)
            stats->in_probe = true;
        if (!strcmp(name, "BackDone") && stats)
            stats->in_probe = false;
        Line l(name);
        l.arr("v", vals, n);
        if (stats)
            l.i("t", stats->count).i("pr", stats->probe);
        out().put(l);
        if (cb)
            cb(name, obj, vals, n);
    }
};

// ---------------------------------------------------------------- operator adaptor
// Wraps any Spectra-style operator; counts applications, validates the pointers handed over by the
// library, injects a fault at a chosen application.  Forwards set_shift.
template <typename Inner>
struct CountOp
{
    typedef typename Inner::Scalar Scalar;
    Inner& in;
    OpStats* st;
    CountOp(Inner& i, OpStats* s) : in(i), st(s) {}
    Eigen::Index rows() const { return in.rows(); }
    Eigen::Index cols() const { return in.cols(); }
    void perform_op(const Scalar* x, Scalar* y) const
    {
        // `total` numbers the attempts (fault positions); `count` is the number of applications actually carried out
        st->total++;
        const Eigen::Index n = in.rows();
        if (x == NULL || y == NULL || (x <= y && y < x + n) || (y <= x && x < y + n))
            st->bad++;
        else
        {
            // a valid input vector is finite as well: the library must never hand NaN / Inf to the user's operator
            for (Eigen::Index i = 0; i < n; i++)
            {
                const LD re = (LD) Eigen::numext::real(x[i]), im = (LD) Eigen::numext::imag(x[i]);
                if (std::isnan(re) || std::isinf(re) || std::isnan(im) || std::isinf(im))
                {
                    st->bad++;
                    break;
                }
            }
        }
        if (st->fault_at && st->total == st->fault_at)
        {
            st->thrown_since_arm++;
            st->fault_at = 0;
            if (st->fault_kind != 2)
                st->thrown++;   // exceptions of the user's operator that must reach the caller as they are
            if (st->fault_kind == 2)
            {
                in.perform_op(x, y);
                st->count++;
                if (st->in_probe)
                    st->probe++;
                y[0] = std::numeric_limits<typename Eigen::NumTraits<Scalar>::Real>::quiet_NaN();
                return;
            }
            if (st->fault_kind == 1)
                throw RawFault(st->fault_tag);
            throw Fault(st->fault_tag);
        }
        in.perform_op(x, y);
        st->count++;
        if (st->in_probe)
            st->probe++;
    }
    template <typename A>
    void set_shift(const A& a)
    {
        st->setshift++;
        in.set_shift(a);
    }
    template <typename A, typename B>
    void set_shift(const A& a, const B& b)
    {
        st->setshift++;
        in.set_shift(a, b);
    }
};

// finite check of a matrix/vector expression
template <typename M>
inline bool all_finite(const M& m)
{
    for (Eigen::Index j = 0; j < m.cols(); j++)
        for (Eigen::Index i = 0; i < m.rows(); i++)
        {
            LD re = (LD) Eigen::numext::real(m(i, j)), im = (LD) Eigen::numext::imag(m(i, j));
            if (std::isnan(re) || std::isinf(re) || std::isnan(im) || std::isinf(im))
                return false;
        }
    return true;
}

// dense ranks of a list of real keys: equal keys get equal rank, ranks start at 1, ascending
template <typename T>
inline std::vector<ll> dense_ranks(const std::vector<T>& k)
{
    std::vector<T> s(k);
    std::sort(s.begin(), s.end());
    s.erase(std::unique(s.begin(), s.end()), s.end());
    std::vector<ll> r(k.size());
    for (size_t i = 0; i < k.size(); i++)
        r[i] = (ll)(std::lower_bound(s.begin(), s.end(), k[i]) - s.begin()) + 1;
    return r;
}

inline std::string exc_name(const std::exception& e)
{
    if (dynamic_cast<const Fault*>(&e))
        return "fault";
    if (dynamic_cast<const std::invalid_argument*>(&e))
        return "invalid_argument";
    if (dynamic_cast<const std::logic_error*>(&e))
        return "logic_error";
    if (dynamic_cast<const std::runtime_error*>(&e))
        return "runtime_error";
    if (dynamic_cast<const std::bad_alloc*>(&e))
        return "bad_alloc";
    return "exception";
}

}  // namespace vh

#endif
