// Driver: GenEigsSolver, GenEigsRealShiftSolver, GenEigsComplexShiftSolver.
#include "ir_run.h"
#include <Spectra/GenEigsSolver.h>
#include <Spectra/GenEigsRealShiftSolver.h>
#include <Spectra/GenEigsComplexShiftSolver.h>
#include <Spectra/MatOp/DenseGenMatProd.h>
#include <Spectra/MatOp/SparseGenMatProd.h>
#include <Spectra/MatOp/DenseGenRealShiftSolve.h>
#include <Spectra/MatOp/SparseGenRealShiftSolve.h>
#include <Spectra/MatOp/DenseGenComplexShiftSolve.h>
#include <Spectra/MatOp/SparseGenComplexShiftSolve.h>

using namespace vh;
using namespace Spectra;

static ll g_id = 0;

template <typename OpT>
ll probe_digest(OpT& op, int n)
{
    typedef typename OpT::Scalar S;
    typedef Eigen::Matrix<S, Eigen::Dynamic, 1> V;
    V w(n), y(n);
    for (int i = 0; i < n; i++)
        w[i] = S(1.0 + 0.37 * ((i * 7) % 11));
    op.perform_op(w.data(), y.data());
    Digest g;
    g.mat(y);
    return g.word30();
}

static CVecL g_pres;
static void ref_spectrum(Ctx& cx, const Desc& d)
{
    if (d.i("c04") && g_pres.size())
    {
        set_prescribed(cx, g_pres);
        return;
    }
    if (d.i("ref", 1) == 0)
        return;
    Eigen::ComplexEigenSolver<CMatL> es(cx.PA, false);
    if (es.info() == Eigen::Success)
        cx.refspec = es.eigenvalues();
}

struct NoReshift
{
    template <typename In>
    void operator()(In&) const {}
};

template <typename T, typename Solver, typename In, typename MakeIn, typename MakeSolver, typename Reshift = NoReshift>
void run_with(const Desc& d, Ctx& cx, MakeIn make_in, MakeSolver make_solver, Reshift reshift = Reshift())
{
    typedef CountOp<In> Op;
    typedef GenEigsBase<Op, IdentityBOp> Base;
    OpStats st;
    TraceSink sink;
    reset_line(d, cx, Ty<T>::code(), 0, ++g_id);
    std::unique_ptr<In> in(make_in());
    Op op(*in, &st);
    Runner<Solver, Base, T> r(d, cx, st, sink);
    r.lanczos = false;
    r.make = [&]() { return make_solver(op); };
    const int n = cx.n;
    r.op_probe = [&]() { return probe_digest(op, n); };
    if (!std::is_same<Reshift, NoReshift>::value)
        r.op_reshift = [&]() { reshift(*in); };
    SymProblem sp;
    sp.blk = (int) d.i("blk", 0);
    r.run(&sp);
}

template <typename T>
void dispatch(const Desc& d)
{
    typedef Eigen::Matrix<T, Eigen::Dynamic, Eigen::Dynamic> Mat;
    const std::string cls = d.s("cls");
    GenProblem gp = gen_gen(d);
    g_pres = gp.spec;
    const int n = (int) d.i("n");
    Mat A = gp.A.cast<T>();
    const Eigen::Index nev = (Eigen::Index) d.i("nev"), ncv = (Eigen::Index) d.i("ncv");
    const bool sparse = d.s("store", "dense") == "sparse";
    Eigen::SparseMatrix<T> As = A.sparseView();
    Ctx cx;
    cx.PA = to_c(A.template cast<LD>());
    cx.PB = CMatL::Identity(n, n);
    if (cls == "gen")
    {
        cx.mode = "plain";
        cx.OP = cx.PA;
        cx.finish();
        ref_spectrum(cx, d);
        if (sparse)
        {
            typedef SparseGenMatProd<T> In;
            typedef GenEigsSolver<CountOp<In> > Solver;
            run_with<T, Solver, In>(d, cx, [&]() { return new In(As); }, [&](CountOp<In>& op) { return new Solver(op, nev, ncv); });
        }
        else
        {
            typedef DenseGenMatProd<T> In;
            typedef GenEigsSolver<CountOp<In> > Solver;
            run_with<T, Solver, In>(d, cx, [&]() { return new In(A); }, [&](CountOp<In>& op) { return new Solver(op, nev, ncv); });
        }
    }
    else if (cls == "genrs")
    {
        const T sigma = (T) d.f("sigma", 0.5L);
        cx.mode = "si";
        cx.sigr = (LD) sigma;
        CMatL S = cx.PA - CLD((LD) sigma, 0) * CMatL::Identity(n, n);
        cx.OP = S.inverse();
        cx.normS = S.norm();
        cx.condfac = S.norm() * cx.OP.norm();
        cx.finish();
        ref_spectrum(cx, d);
        if (sparse)
        {
            typedef SparseGenRealShiftSolve<T> In;
            typedef GenEigsRealShiftSolver<CountOp<In> > Solver;
            run_with<T, Solver, In>(d, cx, [&]() { In* in = new In(As); if (d.has("presig")) in->set_shift((T) d.f("presig")); return in; }, [&](CountOp<In>& op) { T sigvar = sigma; Solver* s = new Solver(op, nev, ncv, sigvar); sigvar = sigma + T(977); return s; },
                                    [&](In& in) { try { in.set_shift((T) d.f("resig", 0.21L)); } catch (const std::exception&) {} in.set_shift(sigma); });
        }
        else
        {
            typedef DenseGenRealShiftSolve<T> In;
            typedef GenEigsRealShiftSolver<CountOp<In> > Solver;
            run_with<T, Solver, In>(d, cx, [&]() { In* in = new In(A); if (d.has("presig")) in->set_shift((T) d.f("presig")); return in; }, [&](CountOp<In>& op) { T sigvar = sigma; Solver* s = new Solver(op, nev, ncv, sigvar); sigvar = sigma + T(977); return s; },
                                    [&](In& in) { try { in.set_shift((T) d.f("resig", 0.21L)); } catch (const std::exception&) {} in.set_shift(sigma); });
        }
    }
    else if (cls == "gencs")
    {
        const T sr = (T) d.f("sigma", 0.5L), si = (T) d.f("sigmai", 0.7L);
        cx.mode = "csi";
        cx.sigr = (LD) sr;
        cx.sigi = (LD) si;
        CMatL S = cx.PA - CLD((LD) sr, (LD) si) * CMatL::Identity(n, n);
        CMatL Si = S.inverse();
        cx.OP = Si.real().cast<CLD>();
        cx.normS = S.norm();
        cx.condfac = S.norm() * Si.norm();
        cx.finish();
        ref_spectrum(cx, d);
        if (sparse)
        {
            typedef SparseGenComplexShiftSolve<T> In;
            typedef GenEigsComplexShiftSolver<CountOp<In> > Solver;
            run_with<T, Solver, In>(d, cx, [&]() { In* in = new In(As); if (d.has("presig")) in->set_shift((T) d.f("presig"), (T) d.f("presigi", 1.0L)); return in; }, [&](CountOp<In>& op) { T srv = sr, siv = si; Solver* s = new Solver(op, nev, ncv, srv, siv); srv = sr + T(977); siv = si + T(31); return s; },
                                    [&](In& in) { try { in.set_shift((T) d.f("resig", 0.21L), (T) d.f("resigi", 0.6L)); } catch (const std::exception&) {} in.set_shift(sr, si); });
        }
        else
        {
            typedef DenseGenComplexShiftSolve<T> In;
            typedef GenEigsComplexShiftSolver<CountOp<In> > Solver;
            run_with<T, Solver, In>(d, cx, [&]() { In* in = new In(A); if (d.has("presig")) in->set_shift((T) d.f("presig"), (T) d.f("presigi", 1.0L)); return in; }, [&](CountOp<In>& op) { T srv = sr, siv = si; Solver* s = new Solver(op, nev, ncv, srv, siv); srv = sr + T(977); siv = si + T(31); return s; },
                                    [&](In& in) { try { in.set_shift((T) d.f("resig", 0.21L), (T) d.f("resigi", 0.6L)); } catch (const std::exception&) {} in.set_shift(sr, si); });
        }
    }
    else
    {
        fprintf(stderr, "drv_ir_gen: unknown cls %s\n", cls.c_str());
        exit(3);
    }
}
#include "drv_main.h"
